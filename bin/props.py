"""Per-property configuration of the Kani checks: which harnesses, bounds, assumptions."""

COMMON_ASSUME = [
    "Kani's MIR->GOTO translation, CBMC 6.11 and CaDiCaL are sound",
    "Kani's models of the allocator and of compiler intrinsics",
]

PROPS = {
    "C19": dict(
        select=[r"^c19_"],
        cap_quick=1500, cap_thorough=7200,
        bounds="paths of exactly n steps, one harness per n: n=0..6 for is_origin/first_field/last_field, "
               "n=0..3 (quick) / 0..6 (thorough) for to_owned; every step symbolic: key-or-index, key over {a,b,c}, "
               "index any usize; unwind n+2 with unwinding assertions",
        outside="paths longer than 6 steps; keys other than three 1-byte keys (to_owned copies the key bytes: equal "
                "lengths avoid symbolic-length copies)",
        assumptions=COMMON_ASSUME + ["hook H1 (feature deserr-verif) only re-exports ValuePointerComponent"],
    ),
    "C05": dict(
        select=[r"^c05_"],
        cap_quick=1200, cap_thorough=3600,
        bounds="one leaf payload per harness through the arena value source: kind symbolic over {null,bool,integer,negative "
               "integer,float,string}, u64/i64/f64 payload full-width symbolic (no range cut), bool symbolic, string over the table "
               "['', 'a', U+00E9, U+20AC, U+1F600, 'ab', U+00E9 'a']; answer of the error type symbolic; one harness per target: bool, (), char, "
               "String, u8..u128/usize, i8..i128/isize, the 12 NonZero types, f32, f64",
        outside="message TEXT of domain errors (alloc::fmt::format is stubbed: core::fmt is out of reach of CBMC, DESIGN 2.3); "
                "strings outside the table; value sources other than the arena source (serde_json's number classification is C13)",
        assumptions=COMMON_ASSUME + ["stub: alloc::fmt::format returns an empty String (message text not observed)",
                                     "float oracle is Rust's `as` conversion (IEEE round-to-nearest) evaluated by the harness"],
    ),
}

STD_BOUNDS = ("payloads through the arena value source with a FIXED skeleton per harness and symbolic contents: root leaf; root sequence of "
              "1..3 leaves; sequence of two sequences of 1..2 leaves; [leaf, sequence of 2]; root object of 1..3 members with symbolic, "
              "pairwise distinct keys over the type's candidate table (effective keys, raw identifiers, case variants, near-misses, alien) "
              "and symbolic leaf values. Leaves: kind symbolic over {null,bool,integer,negative integer,float,string}, u64/i64/f64 full width, "
              "strings over the harness table (<= 8 strings). At most 6 reports and 10 decisions per run (asserted, a larger run is reported as "
              "inconclusive). unwind 12 with unwinding assertions.")
STD_OUT = ("payloads larger or deeper than the skeletons; strings outside the tables; message text (alloc::fmt::format stubbed); "
           "user-written Deserr impls; derive inputs outside the catalogue; serde_json as the value source (C13)")
STD_ASSUME = COMMON_ASSUME + ["stub: alloc::fmt::format returns an empty String (message text not observed)",
                              "stubs (map/set targets): BTreeMap/BTreeSet/HashMap::insert -> call log (std map semantics trusted); std::hash::RandomState::new -> zeroed state",
                              "object keys pairwise distinct (duplicate keys only in the C12 harnesses)",
                              "the recording error type keeps what it is handed (by construction: a Rec is the set of report ids it was built from)"]
CAT = "thorough tier: plus N (default 6, env VERIF_GEN_N) derive inputs generated from VERIF_SEED by tools/gen_catalogue.py with their reference models; catalogue of 12 hand-written derive inputs (S1..S6, C1, C2, E0..E3, N1) covering rename/rename_all/default/skip/deny_unknown_fields/missing_field_error/try_from/from/map/validate/error=/tag/unit enums"

def _p(select, tags, bounds=STD_BOUNDS, outside=STD_OUT, assumptions=STD_ASSUME, **kw):
    d = dict(select=select, tags=tags, bounds=bounds, outside=outside, assumptions=assumptions, cap_quick=2400, cap_thorough=7200)
    d.update(kw)
    return d

PROPS.update({
    "C01": _p([r"^c01_", r"^c12_"], ["C01:"], bounds=STD_BOUNDS + " Answer script: all 2^10 Continue/Break sequences (symbolic). " + CAT),
    "C02": _p([r"^c02_"], ["C02:"], gen=True, bounds=STD_BOUNDS + " Answer script: all-Continue. Oracle: type-directed reference model. " + CAT),
    "C03": _p([r"^c03_"], ["C03:"], bounds=STD_BOUNDS + " Answer script: Continue^k Break^inf for symbolic k in 0..10, then the keep-going run of the same payload. " + CAT),
    "C04": _p([r"^c04_"], ["C04:"], bounds=STD_BOUNDS + " Answer script free. Locations decoded up to depth 3 and resolved in the arena inside the error type. " + CAT),
    "C06": _p([r"^c06_", r"^c02_[qt]_(vec|arr|tup|opt|box)"], ["C06:"]),
    "C07": _p([r"^c02_[qt]_(s1|s2|s3|e0|e1|e2|n1|g\d+)_"], ["C07:"], gen=True, bounds=STD_BOUNDS + " " + CAT),
    "C08": _p([r"^c02_[qt]_(s1|s2|s3|s4|s6|e1|e2|g\d+)_"], ["C08:"], gen=True, bounds=STD_BOUNDS + " " + CAT),
    "C09": _p([r"^c02_[qt]_(s1|s2|s3|e0|e1|e2|n1|g\d+)_"], ["C09:"], gen=True, bounds=STD_BOUNDS + " " + CAT),
    "C10": _p([r"^c02_[qt]_(e0|e1|e2|e3)_"], ["C10:"], bounds=STD_BOUNDS + " " + CAT),
    "C11": _p([r"^c02_[qt]_(s4|s5|s6|c1|c2)_"], ["C11:"], bounds=STD_BOUNDS + " User-function outcomes (try_from / validate fail or succeed) symbolic. " + CAT),
    "C12": _p([r"^c12_", r"^c01_", r"^c05_q_(char|string)", r"^c13_q_view_"], [], panics=True, bounds=STD_BOUNDS + " Every reachable panic!, unwrap, index, arithmetic-overflow and pointer check of the compiled code is a proof obligation. " + CAT),
})
PROPS["C05"]["tags"] = ["C05:"]
PROPS["C19"]["tags"] = ["C19:"]

PROPS["C16"] = dict(engine="mir")

PROPS["C13"] = _p([r"^c13_"], ["C13:"],
    bounds="serde_json documents with a FIXED skeleton per harness and symbolic leaf contents: Number::from(any u64), Number::from(any i64), "
           "Number::from_f64(any finite f64), null, bool, strings over {'', 'a', U+00E9 'b'}; empty array / object and a one-element array for "
           "kind()/into_value(); one-element array through both conversions (thorough)",
    outside="arbitrary nesting, wide objects, long strings, serde_json's arbitrary_precision feature; containers with more than one element "
            "(the library drops iterators over recursive values internally: not finished in 20 min in the probes)",
    assumptions=COMMON_ASSUME + ["stub: alloc::fmt::format returns an empty String", "values of recursive type are forgotten, not dropped, by the harness"])
PROPS["C15"] = _p([r"^c15_"], ["C15:"], all_tags_for=r"^c15_.*_model$", bounds=STD_BOUNDS + " Two keep-going runs per harness: the payload and the same payload with the members of the root object "
    "permuted by a symbolic permutation (all 2 / all 6). Targets: S1, S2, S3, S4, S6 of the catalogue and BTreeMap<KeyT,u8> (insert log compared as a multiset); tagged enums E0/E1/E2: the concrete reversal (tag first vs. tag last) as a two-run harness, and `*_taglast_model` harnesses comparing the tag-last run with the order-independent reference model (a symbolic tag position does not finish in 25 min).")
PROPS["C18"] = dict(select=[r"^c18_"], tags=["C18:"], cap_quick=1200, cap_thorough=7200,
    bounds="received string: a run of one letter ('a', or the 2-byte U+00E9) of symbolic length 0..30 characters; 0..3 candidates, each a run of the same letter of "
           "symbolic length 0..30; thorough adds the 3-byte U+20AC family (0..21 characters = 63 bytes) and ASCII runs of 0..64 bytes; layer 2: three non-empty candidates of symbolic length, "
           "the named candidate identified by pointer identity through a probing fmt::Write (native replay compares the real text byte for byte)",
    outside="strings that are not runs of a single letter: the edit-distance kernel strsim::damerau_levenshtein (a dependency) is replaced by its closed form "
            "|n-m| on this string family - the kernel itself is trusted; lists longer than 3; strings longer than 64 bytes",
    assumptions=COMMON_ASSUME + ["stub: strsim::damerau_levenshtein(x^n, x^m) = |n-m| (its true value on the harness' string family)",
                                 "layer 1 stub: alloc::fmt::format returns a marker (emptiness of the suggestion is observed, not its text)"])

# development aid (not a property): every thorough-only harness once, all assertions count
PROPS["T00"] = dict(select=[r"^c\d\d_t_"], tags=None, cap_quick=3000, cap_thorough=3000, bounds="", outside="", assumptions=[])
