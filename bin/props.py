"""Per-property configuration of the Kani checks: which harnesses, bounds, assumptions."""

COMMON_ASSUME = [
    "Kani's MIR->GOTO translation, CBMC 6.11 and CaDiCaL are sound",
    "Kani's models of the allocator and of compiler intrinsics",
]

PROPS = {
    "C19": dict(
        select=[r"^c19_"],
        cap_quick=1500, cap_thorough=7200,
        bounds="paths of exactly n steps, one harness per n: n=0..6 for is_origin/first_field/last_field, "
               "n=0..3 (quick) / 0..6 (thorough) for to_owned; every step symbolic: key-or-index, key over {a,b,c}, "
               "index any usize; unwind n+2 with unwinding assertions",
        outside="paths longer than 6 steps; keys other than three 1-byte keys (to_owned copies the key bytes: equal "
                "lengths avoid symbolic-length copies)",
        assumptions=COMMON_ASSUME + ["hook H1 (feature deserr-verif) only re-exports ValuePointerComponent"],
    ),
    "C05": dict(
        select=[r"^c05_"],
        cap_quick=1200, cap_thorough=3600,
        bounds="one leaf payload per harness through the arena value source: kind symbolic over {null,bool,integer,negative "
               "integer,float,string}, u64/i64/f64 payload full-width symbolic (no range cut), bool symbolic, string over the table "
               "['', 'a', U+00E9, U+20AC, U+1F600, 'ab']; answer of the error type symbolic; one harness per target: bool, (), char, "
               "String, u8..u128/usize, i8..i128/isize, the 12 NonZero types, f32, f64",
        outside="message TEXT of domain errors (alloc::fmt::format is stubbed: core::fmt is out of reach of CBMC, DESIGN 2.3); "
                "strings outside the table; value sources other than the arena source (serde_json's number classification is C13)",
        assumptions=COMMON_ASSUME + ["stub: alloc::fmt::format returns an empty String (message text not observed)",
                                     "float oracle is Rust's `as` conversion (IEEE round-to-nearest) evaluated by the harness"],
    ),
}
