"""Per-property configuration of the Kani checks: which harnesses, bounds, assumptions."""

COMMON_ASSUME = [
    "Kani's MIR->GOTO translation, CBMC 6.11 and CaDiCaL are sound",
    "Kani's models of the allocator and of compiler intrinsics",
]

PROPS = {
    "C19": dict(
        select=[r"^c19_"],
        cap_quick=1500, cap_thorough=7200,
        bounds="paths of exactly n steps, one harness per n: n=0..6 for is_origin/first_field/last_field, "
               "n=0..3 (quick) / 0..6 (thorough) for to_owned; every step symbolic: key-or-index, key over {a,b,c}, "
               "index any usize; unwind n+2 with unwinding assertions",
        outside="paths longer than 6 steps; keys other than three 1-byte keys (to_owned copies the key bytes: equal "
                "lengths avoid symbolic-length copies)",
        assumptions=COMMON_ASSUME + ["hook H1 (feature deserr-verif) only re-exports ValuePointerComponent"],
    ),
}
