#!/usr/bin/env python3
"""Shared machinery: discover Kani harnesses in /verif/harness, run them in
parallel (one `cargo kani --harness X --exact` process per harness, one
target dir per worker slot), parse the verdicts, replay counterexamples
natively through Kani's concrete playback, write evidence.

Nothing here decides a property by itself: the verdict of every harness is
CBMC's (SAT solver) over the code compiled from /repo's working tree.
"""
import json, os, re, resource, shutil, signal, subprocess, sys, threading, time, hashlib
from concurrent.futures import ThreadPoolExecutor

VERIF = os.path.dirname(os.path.dirname(os.path.abspath(__file__)))
HARNESS = os.path.join(VERIF, "harness")
TARGET_ROOT = os.path.join(HARNESS, "target")
EVID = os.path.join(VERIF, "evidence")
REPLAYS = os.path.join(EVID, "replays")
KNOWN = os.path.join(VERIF, "known-findings.txt")
REPO = "/repo"

NAME_RE = re.compile(r"\b(c\d\d_[qt]_[a-z0-9_]+)\b")


def env():
    e = dict(os.environ)
    e["CARGO_NET_OFFLINE"] = "true"
    e.pop("RUSTUP_TOOLCHAIN", None)  # Kani pins its own toolchain
    e["CARGO_TERM_COLOR"] = "never"
    return e


def discover():
    """harness name -> module, from the sources (names follow cNN_[qt]_*)."""
    out = {}
    src = os.path.join(HARNESS, "src")
    for fn in sorted(os.listdir(src)):
        if not fn.endswith(".rs"):
            continue
        mod = fn[:-3]
        for line in open(os.path.join(src, fn)):
            s = line.strip()
            if s.startswith("//"):
                continue
            if re.match(r"(pub )?fn c\d\d_[qt]_", s) or re.match(r"[a-z0-9_]+!\(\s*c\d\d_[qt]_", s):
                m = NAME_RE.search(s)
                if m:
                    out[m.group(1)] = mod
    return out


def select(harnesses, patterns, tier, only=None):
    sel = []
    for name in sorted(harnesses):
        if not any(re.search(p, name) for p in patterns):
            continue
        if tier == "quick" and re.match(r"c\d\d_t_", name):
            continue
        if only and not re.search(only, name):
            continue
        sel.append(name)
    return sel


def _limits(mem_gb):
    def f():
        os.setsid()
        lim = int(mem_gb * (1 << 30))
        resource.setrlimit(resource.RLIMIT_AS, (lim, lim))
    return f


def kill_group(p):
    try:
        os.killpg(p.pid, signal.SIGKILL)
    except ProcessLookupError:
        pass


RUNNING = set()
RUN_LOCK = threading.Lock()
ABORT = threading.Event()


def abort_all():
    """the run's verdict is settled (a violation was reproduced): stop every harness still running"""
    ABORT.set()
    with RUN_LOCK:
        for p in list(RUNNING):
            kill_group(p)


def run_cmd(cmd, cwd, timeout, mem_gb=24, log=None, extra_env=None, abortable=False):
    t0 = time.time()
    e = env()
    if extra_env:
        e.update(extra_env)
    if abortable and ABORT.is_set():
        return -15, "aborted: a violation was already reproduced in this run\n", False, 0.0
    p = subprocess.Popen(cmd, cwd=cwd, env=e, stdout=subprocess.PIPE, stderr=subprocess.STDOUT,
                         preexec_fn=_limits(mem_gb), text=True, errors="replace")
    if abortable:
        with RUN_LOCK:
            RUNNING.add(p)
    timed_out = False
    try:
        out, _ = p.communicate(timeout=timeout)
    except subprocess.TimeoutExpired:
        timed_out = True
        kill_group(p)
        out, _ = p.communicate()
    kill_group(p)  # reap any straggling cbmc
    if abortable:
        with RUN_LOCK:
            RUNNING.discard(p)
    if log:
        with open(log, "w") as f:
            f.write(out)
    return p.returncode, out, timed_out, time.time() - t0


def prepare_slots(n, log):
    """One target dir per worker slot.  Slot 0 is built first (dependencies incl.
    /repo and its proc-macro are compiled from the current working tree), the
    others start as copies so the dependencies are not rebuilt n times; cargo's
    fingerprints make every slot rebuild whatever changed in /repo."""
    os.makedirs(TARGET_ROOT, exist_ok=True)
    s0 = os.path.join(TARGET_ROOT, "w0")
    rc, out, to, dt = run_cmd(["cargo", "kani", "--only-codegen", "-Z", "stubbing", "--harness", "h_model::c00_q_model_string",
                               "--exact", "--target-dir", s0], HARNESS, 1800, log=log)
    if rc != 0:
        return False, out
    for i in range(1, n):
        si = os.path.join(TARGET_ROOT, "w%d" % i)
        if not os.path.isdir(si):
            subprocess.run(["cp", "-a", s0, si], check=False)
    return True, out


CHECK_RE = re.compile(r"^Check (\d+): (.+)\n\t - Status: (\S+)\n\t - Description: \"(.*)\"\n(?:\t - Location: (.*)\n)?", re.M)


def parse_output(out):
    r = {"status": "error", "failed": [], "covers": {}, "n_checks": 0, "n_failed": 0, "unreachable": 0}
    if "VERIFICATION:- SUCCESSFUL" in out:
        r["status"] = "ok"
    elif "VERIFICATION:- FAILED" in out:
        r["status"] = "failed"
    m = re.search(r"\*\* (\d+) of (\d+) failed(?: \((.*?)\))?", out)
    if m:
        r["n_failed"] = int(m.group(1)); r["n_checks"] = int(m.group(2))
    for m in CHECK_RE.finditer(out):
        num, cid, st, desc, loc = m.groups()
        # Kani renders assert!(c, "msg") as Description: ""msg""
        if len(desc) >= 2 and desc[0] == '"' and desc[-1] == '"':
            desc = desc[1:-1]
        if ".cover." in cid or st in ("SATISFIED", "UNSATISFIED"):
            r["covers"].setdefault(desc, st)
            if st == "SATISFIED":
                r["covers"][desc] = st
        elif st in ("FAILURE",):
            r["failed"].append({"id": cid, "desc": desc, "loc": loc or ""})
        elif st in ("UNDETERMINED",):
            r.setdefault("undetermined", 0)
            r["undetermined"] += 1
    # unsupported constructs / errors
    if "Status: ERROR" in out or "CBMC failed" in out or "error: " in out and r["status"] == "error":
        r["status"] = "error"
    # out of memory inside cbmc
    if re.search(r"(std::bad_alloc|Out of memory|memory exhausted|SIGKILL|signal: 9)", out):
        r["oom"] = True
    mt = re.search(r"Verification Time: ([0-9.]+)s", out)
    r["verif_time_s"] = float(mt.group(1)) if mt else None
    r["symex_s"] = sum(float(x) for x in re.findall(r"Runtime Symex: ([0-9.e+-]+)s", out))
    r["solver_s"] = sum(float(x) for x in re.findall(r"Runtime Solver: ([0-9.e+-]+)s", out))
    st = re.findall(r"size of program expression: (\d+) steps", out)
    r["steps"] = int(st[-1]) if st else None
    vc = re.findall(r"(\d+) variables, (\d+) clauses", out)
    if vc:
        r["variables"], r["clauses"] = int(vc[-1][0]), int(vc[-1][1])
    r["stubs"] = sorted(set(re.findall(r"- Stub: (\S+)", out)))
    um = re.search(r"--unwind (\d+)", out)
    r["unwind"] = int(um.group(1)) if um else None
    return r


class Pool:
    def __init__(self, n):
        self.free = list(range(n))
        self.lock = threading.Lock()

    def take(self):
        with self.lock:
            return self.free.pop()

    def give(self, i):
        with self.lock:
            self.free.append(i)


def mem_available_gb():
    try:
        for line in open("/proc/meminfo"):
            if line.startswith("MemAvailable:"):
                return int(line.split()[1]) / (1 << 20)
    except Exception:
        pass
    return 1e9


def admit(min_free_gb=None, max_wait=3600):
    """memory-aware admission: this machine has no swap, and a CBMC run that cannot allocate
    dies (reported as inconclusive); do not start another harness while little memory is free
    and others are still running"""
    if min_free_gb is None:
        min_free_gb = float(os.environ.get("VERIF_MIN_FREE_GB", "12"))
    t0 = time.time()
    while time.time() - t0 < max_wait:
        with RUN_LOCK:
            busy = len(RUNNING)
        if busy == 0 or mem_available_gb() >= min_free_gb or ABORT.is_set():
            return
        time.sleep(5)


def run_harness(name, mod, slot, cap, logdir, extra=()):
    admit()
    tdir = os.path.join(TARGET_ROOT, "w%d" % slot)
    cmd = ["cargo", "kani", "--harness", "%s::%s" % (mod, name), "--exact", "-Z", "stubbing", "-v",
           "--target-dir", tdir] + list(extra)
    log = os.path.join(logdir, name + ".log")
    rc, out, to, dt = run_cmd(cmd, HARNESS, cap, log=log, abortable=True)
    if "Kani unexpectedly panicked" in out and "print_stats" in out:
        # kani-compiler 0.68 ICEs in its verbose-only statistics printer on some crates:
        # run again without -v (no symex / solver time break-down for this harness)
        cmd = [c for c in cmd if c != "-v"]
        rc, out, to, dt2 = run_cmd(cmd, HARNESS, cap, log=log, abortable=True)
        dt += dt2
    r = parse_output(out)
    r.update({"name": name, "module": mod, "wall_s": round(dt, 1), "rc": rc, "log": log})
    if ABORT.is_set() and r["status"] not in ("ok", "failed"):
        r["status"] = "aborted"
    elif to:
        r["status"] = "timeout"
    elif r["status"] == "error" and (r.get("oom") or rc in (-9, 137)):
        r["status"] = "oom"
    return r


def run_all(names, mods, jobs, cap, logdir, progress=True, on_result=None):
    """on_result(r, slot) runs in the worker while it still holds its slot (used to replay a
    counterexample at once, so a VIOLATION line is out long before the slow harnesses end)."""
    os.makedirs(logdir, exist_ok=True)
    pool = Pool(jobs)
    results = {}

    def work(n):
        s = pool.take()
        try:
            r = run_harness(n, mods[n], s, cap, logdir)
            if on_result:
                on_result(r, s)
        finally:
            pool.give(s)
        if progress:
            print("  [%s] %-40s %6.1fs  checks=%s failed=%s" % (r["status"], n, r["wall_s"], r["n_checks"], len(r["failed"])), flush=True)
        return r

    with ThreadPoolExecutor(max_workers=jobs) as ex:
        for r in ex.map(work, names):
            results[r["name"]] = r
    return results


# ------------------------------------------------------------------ replay

PLAYBACK_RE = re.compile(r"```\n(.*?)```", re.S)


def replay(name, mod, slot, logdir, cap=1800, want=None, panics_ok=False):
    """Ask Kani for the solver's assignment as a unit test, then execute that test
    natively (real /repo build, no stubs) in the dev and the release profile.
    Returns (verdict, info): verdict in {"reproduced", "not-reproduced", "no-test"}."""
    tdir = os.path.join(TARGET_ROOT, "w%d" % slot)
    cmd = ["cargo", "kani", "--harness", "%s::%s" % (mod, name), "--exact", "-Z", "stubbing",
           "-Z", "concrete-playback", "--concrete-playback=print", "--target-dir", tdir]
    rc, out, to, dt = run_cmd(cmd, HARNESS, cap, log=os.path.join(logdir, name + ".playback-gen.log"))
    tests = re.findall(r"(#\[test\]\nfn kani_concrete_playback_\w+\(\) \{.*?\n\})", out, re.S)
    if not tests:
        return "no-test", {"reason": "Kani produced no concrete playback test", "log": os.path.join(logdir, name + ".playback-gen.log")}
    rdir = os.path.join(REPLAYS, name)
    shutil.rmtree(rdir, ignore_errors=True)
    os.makedirs(rdir)
    # scratch copy of the harness crate (sources only)
    scratch = os.path.join("/root/.cache/verif-replay", name)
    shutil.rmtree(scratch, ignore_errors=True)
    os.makedirs(os.path.dirname(scratch), exist_ok=True)
    shutil.copytree(HARNESS, scratch, ignore=shutil.ignore_patterns("target", "kani-list.json"))
    verdicts = {}
    test_src_all = []
    seen_fn = set()
    for k, t in enumerate(tests[:40]):
        fname = re.search(r"fn (kani_concrete_playback_\w+)", t).group(1)
        # Kani names a test after the hash of its concrete values: two failed checks with the
        # same assignment give the same function twice, which would not compile
        if fname in seen_fn:
            continue
        seen_fn.add(fname)
        t2 = re.sub(r"concrete_playback_run\(concrete_vals, (\w+)\)", r"concrete_playback_run(concrete_vals, crate::%s::\1)" % mod, t)
        test_src_all.append(t2)
    with open(os.path.join(scratch, "src", "playback_tests.rs"), "w") as f:
        f.write("// generated by Kani concrete playback for %s\n" % name)
        f.write("\n\n".join(test_src_all) + "\n")
    with open(os.path.join(scratch, "src", "lib.rs"), "a") as f:
        f.write("\n#[cfg(kani)]\nmod playback_tests;\n")
    shutil.copy(os.path.join(scratch, "src", "playback_tests.rs"), os.path.join(rdir, "playback_tests.rs"))
    reproduced_all = True
    build_failed = False
    outs = {}
    for prof in ("dev", "release"):
        cmd = ["cargo", "kani", "playback", "-Z", "concrete-playback", "--", "kani_concrete_playback", "--test-threads=1"]
        # `cargo kani playback` has no --release: the release profile users run is approximated by
        # overriding the test profile (opt-level 3, no debug assertions, no overflow checks)
        xe = None
        if prof == "release":
            xe = {"CARGO_PROFILE_TEST_OPT_LEVEL": "3", "CARGO_PROFILE_TEST_DEBUG_ASSERTIONS": "false", "CARGO_PROFILE_TEST_OVERFLOW_CHECKS": "false",
                  "CARGO_PROFILE_DEV_OPT_LEVEL": "3", "CARGO_PROFILE_DEV_DEBUG_ASSERTIONS": "false", "CARGO_PROFILE_DEV_OVERFLOW_CHECKS": "false"}
        rc, pout, to, dt = run_cmd(cmd, scratch, cap, mem_gb=48, log=os.path.join(logdir, "%s.playback-%s.log" % (name, prof)), extra_env=xe)
        # a reproduced violation = the test panics with one of OUR property messages
        msgs = sorted(set(re.findall(r"panicked at [^\n]*:\n([^\n]*)", pout)))
        failed = "test result: FAILED" in pout
        built = "could not compile" not in pout and "test result:" in pout
        if failed and want is not None:
            # the native failure must be the property's own: one of the assertions the solver
            # reported (C12: any panic that is not an assertion of another property)
            own = [m for m in msgs if any(w in m or m in w for w in want)]
            if panics_ok:
                own += [m for m in msgs if not re.match(r"^(C\d\d[:/]|harness|model:)", m)]
            failed = bool(own)
        outs[prof] = {"failed": failed, "panics": msgs[:5], "rc": rc, "built": built}
        if not failed:
            reproduced_all = False
        if not built:
            build_failed = True
    shutil.rmtree(scratch, ignore_errors=True)
    info = {"harness": "%s::%s" % (mod, name), "profiles": outs, "test": os.path.join(rdir, "playback_tests.rs")}
    if build_failed:
        return "replay-build-failed", info
    return ("reproduced" if reproduced_all else "not-reproduced"), info


def load_known():
    """known-findings.txt: lines `finding: property=Cxx harness=<regex> assertion=<regex> :: text`
    (suppress, print KNOWN-FINDING) and `fixed: property=Cxx <commit> <what>` (suppress nothing)."""
    res = []
    if os.path.exists(KNOWN):
        for line in open(KNOWN):
            line = line.strip()
            if line.startswith("finding:"):
                m = re.match(r"finding:\s+property=(\S+)\s+harness=(\S+)\s+assertion=(.+?)\s+::\s+(.*)", line)
                if m:
                    res.append({"property": m.group(1), "harness": m.group(2), "assertion": m.group(3), "text": m.group(4)})
    return res


def repo_state():
    def g(*a):
        try:
            return subprocess.run(["git", "-C", REPO] + list(a), capture_output=True, text=True).stdout.strip()
        except Exception:
            return ""
    diff = g("diff", "HEAD")
    return {"head": g("rev-parse", "HEAD"), "dirty": bool(diff), "diff_sha": hashlib.sha1(diff.encode()).hexdigest()[:12] if diff else None}
