"""C16 is decided by the MIR presence encoder (needs z3: runs under the tooling venv)."""
import subprocess, os

def run(pid, tier, seed, cfg, args):
    here = os.path.dirname(os.path.dirname(os.path.abspath(__file__)))
    p = subprocess.run(["python3-vt", os.path.join(here, "tools", "mir_presence.py"), tier])
    return p.returncode
