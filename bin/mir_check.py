"""C16 is decided by the MIR presence encoder (needs z3: runs under the tooling venv)."""
import subprocess, os

def run(pid, tier, seed, cfg, args):
    here = os.path.dirname(os.path.dirname(os.path.abspath(__file__)))
    env = dict(os.environ)
    if getattr(args, "no_evidence", False):
        env["VERIF_NO_EVIDENCE"] = "1"
    p = subprocess.run(["python3-vt", os.path.join(here, "tools", "mir_presence.py"), tier], env=env)
    return p.returncode
