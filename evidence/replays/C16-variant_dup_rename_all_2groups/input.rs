#![allow(dead_code, unused)]
use deserr::{Deserr, DeserializeError, ErrorKind, ValuePointerRef, errors::JsonError};
use std::convert::Infallible;
fn vfn(t: T, _: ValuePointerRef) -> Result<T, Infallible> { Ok(t) }
fn mfe(_: &str, l: ValuePointerRef) -> JsonError { deserr::take_cf_content(JsonError::error::<Infallible>(None, ErrorKind::Unexpected { msg: String::new() }, l)) }
fn mapf(x: u8) -> u8 { x }
fn ffrom(x: u8) -> u8 { x }
fn ftry(x: u8) -> Result<u8, Infallible> { Ok(x) }
#[derive(Deserr)]
enum T {
#[deserr(rename_all = camelCase)]
#[deserr(rename_all = camelCase)]
    Aa,
    Bb,
}
fn main() {}
