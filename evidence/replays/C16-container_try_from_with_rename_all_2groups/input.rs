#![allow(dead_code, unused)]
use deserr::{Deserr, DeserializeError, ErrorKind, ValuePointerRef, errors::JsonError};
use std::convert::Infallible;
fn vfn(t: T, _: ValuePointerRef) -> Result<T, Infallible> { Ok(t) }
fn mfe(_: &str, l: ValuePointerRef) -> JsonError { deserr::take_cf_content(JsonError::error::<Infallible>(None, ErrorKind::Unexpected { msg: String::new() }, l)) }
fn mapf(x: u8) -> u8 { x }
fn ffrom(x: u8) -> u8 { x }
fn ftry(x: u8) -> Result<u8, Infallible> { Ok(x) }
#[derive(Deserr)]
#[deserr(error = deserr::errors::JsonError, try_from(u8) = mk_try -> std::convert::Infallible, validate = vfn -> std::convert::Infallible)]
#[deserr(rename_all = camelCase, tag = "t", validate = vfn -> std::convert::Infallible)]
struct T { a: u8 }
fn mk_from(x: u8) -> T { T { a: x } }
fn mk_try(x: u8) -> Result<T, Infallible> { Ok(T { a: x }) }
fn main() {}
