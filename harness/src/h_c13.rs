//! C13 — serde_json bridge, lean style (DESIGN lesson 7): the variant of every
//! node is fixed by the harness code, leaf contents are symbolic, comparisons are
//! structural `match`es (no clone / == / drop of recursive values).
use crate::rec::Rec;
use crate::stubs::fmt_stub;
use core::mem::forget;
use deserr::{deserialize, IntoValue, Value, ValueKind};
use serde_json::{Number, Value as J};

type R = Rec<0>;

fn is_kind(a: ValueKind, b: ValueKind) -> bool {
    a == b
}

/// what a number must be classified as, from the SOURCE number
#[derive(Clone, Copy, PartialEq)]
pub enum Cls {
    U(u64),
    I(i64),
    F(u64),
}

fn check_view(v: J, c: Cls) {
    let k = v.kind();
    let dv = v.into_value();
    assert!(is_kind(k, dv.kind()), "C13: kind() differs from the kind of the consumed view");
    match (&dv, c) {
        (Value::Integer(y), Cls::U(x)) => assert!(*y == x, "C13: integer that fits u64 must be a non-negative integer with that value"),
        (Value::NegativeInteger(y), Cls::I(x)) => assert!(*y == x, "C13: negative integer that fits i64 must be a negative integer with that value"),
        (Value::Float(y), Cls::F(x)) => assert!(y.to_bits() == x, "C13: other numbers must be floats, bit-exact"),
        _ => assert!(false, "C13: number classified differently from how serde_json holds it"),
    }
    forget(dv);
}

fn check_number_back(j: &J, c: Cls) {
    match j {
        J::Number(n) => match c {
            Cls::U(x) => assert!(n.as_u64() == Some(x), "C13: converting back does not yield the same number"),
            Cls::I(x) => assert!(n.as_i64() == Some(x) && n.as_u64().is_none(), "C13: converting back does not yield the same number"),
            Cls::F(x) => assert!(n.is_f64() && n.as_f64().map(|f| f.to_bits()) == Some(x), "C13: converting back does not yield the same number"),
        },
        _ => assert!(false, "C13: converting a number back does not yield a number"),
    }
}

/// Converting back, decomposed (lesson 7): `into_value` is checked by `check_view` for every
/// source number (variant AND payload of the view); the two conversions back are checked
/// for EVERY payload of each view variant, the variant being concrete in the harness.
/// Their composition is the round trip.
fn back_number(mk: impl Fn() -> Value<J>, c: Cls) {
    let back = J::from(mk());
    check_number_back(&back, c);
    forget(back);
    crate::rec::reset();
    crate::rec::all_continue();
    let r = <J as deserr::Deserr<R>>::deserialize_from_value::<J>(mk(), deserr::ValuePointerRef::Origin);
    match &r {
        Ok(j) => check_number_back(j, c),
        Err(_) => assert!(false, "C13: deserializing a document serde_json can hold into serde_json::Value failed"),
    }
    forget(r);
}

#[cfg(kani)]
#[kani::proof]
#[kani::unwind(12)]
#[kani::stub(alloc::fmt::format, fmt_stub)]
pub fn c13_q_view_u64() {
    let x: u64 = kani::any();
    check_view(J::Number(Number::from(x)), Cls::U(x));
    kani::cover!(x > i64::MAX as u64, "above i64::MAX");
}

#[cfg(kani)]
#[kani::proof]
#[kani::unwind(12)]
#[kani::stub(alloc::fmt::format, fmt_stub)]
pub fn c13_q_view_i64() {
    let x: i64 = kani::any();
    let c = if x >= 0 { Cls::U(x as u64) } else { Cls::I(x) };
    check_view(J::Number(Number::from(x)), c);
    kani::cover!(x == i64::MIN, "i64::MIN");
    kani::cover!(x >= 0, "non-negative i64 is a non-negative integer");
}

#[cfg(kani)]
#[kani::proof]
#[kani::unwind(12)]
#[kani::stub(alloc::fmt::format, fmt_stub)]
pub fn c13_q_view_f64() {
    let f: f64 = kani::any();
    match Number::from_f64(f) {
        // serde_json holds every finite f64 given through from_f64 as a float (also integral ones and -0.0)
        Some(n) => check_view(J::Number(n), Cls::F(f.to_bits())),
        None => assert!(!f.is_finite(), "harness: from_f64 refuses only non-finite floats"),
    }
    kani::cover!(f == 0.0 && f.is_sign_negative(), "-0.0");
    kani::cover!(f == 9007199254740993.0, "integral float beyond 2^53");
}

#[cfg(kani)]
#[kani::proof]
#[kani::unwind(12)]
#[kani::stub(alloc::fmt::format, fmt_stub)]
pub fn c13_q_back_integer() {
    let x: u64 = kani::any();
    back_number(|| Value::Integer(x), Cls::U(x));
    kani::cover!(x > i64::MAX as u64, "above i64::MAX");
}

#[cfg(kani)]
#[kani::proof]
#[kani::unwind(12)]
#[kani::stub(alloc::fmt::format, fmt_stub)]
pub fn c13_q_back_negative() {
    let x: i64 = kani::any();
    // a negative-integer view converts back to the same integer (held as u64 when it is not negative)
    let c = if x >= 0 { Cls::U(x as u64) } else { Cls::I(x) };
    back_number(|| Value::NegativeInteger(x), c);
    kani::cover!(x == i64::MIN, "i64::MIN");
}

#[cfg(kani)]
#[kani::proof]
#[kani::unwind(12)]
#[kani::stub(alloc::fmt::format, fmt_stub)]
pub fn c13_q_back_float() {
    let f: f64 = kani::any();
    if f.is_finite() {
        back_number(|| Value::Float(f), Cls::F(f.to_bits()));
    } else {
        // not a document serde_json can hold: From gives null, Deserr reports exactly one error
        let back = J::from(Value::<J>::Float(f));
        assert!(matches!(back, J::Null), "C13: a non-finite float converts to null through From");
        forget(back);
        crate::rec::reset();
        crate::rec::all_continue();
        let r = <J as deserr::Deserr<Rec<0>>>::deserialize_from_value::<J>(Value::Float(f), deserr::ValuePointerRef::Origin);
        crate::rec::post_c01(&r);
        assert!(r.is_err(), "C13: a non-finite float cannot become a serde_json number");
        forget(r);
    }
    kani::cover!(f == 0.0 && f.is_sign_negative(), "-0.0");
    kani::cover!(f.is_nan(), "NaN");
}

fn leaf_roundtrip(mk: impl Fn() -> J, same: impl Fn(&J) -> bool, k: ValueKind) {
    let v = mk();
    let kk = v.kind();
    assert!(is_kind(kk, k), "C13: kind()");
    let dv = v.into_value();
    assert!(is_kind(dv.kind(), k), "C13: kind() differs from the kind of the consumed view");
    let back = J::from(dv);
    assert!(same(&back), "C13: From<Value> does not give back the same document");
    forget(back);
    crate::rec::reset();
    crate::rec::all_continue();
    let r = deserialize::<J, J, R>(mk());
    match &r {
        Ok(j) => assert!(same(j), "C13: Deserr for serde_json::Value does not give back the same document"),
        Err(_) => assert!(false, "C13: deserializing a document serde_json can hold into serde_json::Value failed"),
    }
    forget(r);
}

#[cfg(kani)]
#[kani::proof]
#[kani::unwind(12)]
#[kani::stub(alloc::fmt::format, fmt_stub)]
pub fn c13_q_null_bool() {
    leaf_roundtrip(|| J::Null, |j| matches!(j, J::Null), ValueKind::Null);
    let b: bool = kani::any();
    leaf_roundtrip(|| J::Bool(b), |j| matches!(j, J::Bool(x) if *x == b), ValueKind::Boolean);
    kani::cover!(b, "true");
}

#[cfg(kani)]
#[kani::proof]
#[kani::unwind(12)]
#[kani::stub(alloc::fmt::format, fmt_stub)]
pub fn c13_q_string() {
    let k: u8 = kani::any();
    kani::assume(k < 3);
    let mk = || match k {
        0 => J::String(String::new()),
        1 => J::String("a".to_string()),
        _ => J::String("\u{e9}b".to_string()),
    };
    let same = |j: &J| match j {
        J::String(s) => match k {
            0 => s.is_empty(),
            1 => s.as_bytes() == b"a",
            _ => s.as_bytes() == "\u{e9}b".as_bytes(),
        },
        _ => false,
    };
    leaf_roundtrip(mk, same, ValueKind::String);
    kani::cover!(k == 2, "multi-byte string");
}

/// containers: kind()/into_value() agreement (non-recursive functions)
#[cfg(kani)]
#[kani::proof]
#[kani::unwind(12)]
#[kani::stub(alloc::fmt::format, fmt_stub)]
pub fn c13_q_container_kinds() {
    let a = J::Array(Vec::new());
    assert!(is_kind(a.kind(), ValueKind::Sequence), "C13: kind()");
    let da = a.into_value();
    assert!(matches!(&da, Value::Sequence(s) if s.is_empty()), "C13: an array must be viewed as a sequence of the same length");
    forget(da);
    let o = J::Object(serde_json::Map::new());
    assert!(is_kind(o.kind(), ValueKind::Map), "C13: kind()");
    let d = o.into_value();
    assert!(matches!(&d, Value::Map(m) if m.is_empty()), "C13: an object must be viewed as a map of the same size");
    forget(d);
    let x: u64 = kani::any();
    let a1 = J::Array(vec![J::Number(Number::from(x))]);
    let d1 = a1.into_value();
    match &d1 {
        Value::Sequence(s) => {
            assert!(s.len() == 1, "C13: an array must be viewed as a sequence of the same length");
            assert!(matches!(&s[0], J::Number(n) if n.as_u64() == Some(x)), "C13: array element changed by the view");
        }
        _ => assert!(false, "C13: an array must be viewed as a sequence"),
    }
    forget(d1);
    kani::cover!(x == u64::MAX, "u64::MAX element");
}

/// one-element array through both conversions (thorough: the library drops iterators
/// over recursive values internally, expected to be expensive)
#[cfg(kani)]
#[kani::proof]
#[kani::unwind(12)]
#[kani::stub(alloc::fmt::format, fmt_stub)]
pub fn c13_x_array1_u64() {
    let x: u64 = kani::any();
    let mk = || J::Array(vec![J::Number(Number::from(x))]);
    let same = |j: &J| match j {
        J::Array(v) => v.len() == 1 && matches!(&v[0], J::Number(n) if n.as_u64() == Some(x)),
        _ => false,
    };
    let back = J::from(mk().into_value());
    assert!(same(&back), "C13: From<Value> does not give back the same document");
    forget(back);
    crate::rec::reset();
    crate::rec::all_continue();
    let r = deserialize::<J, J, R>(mk());
    match &r {
        Ok(j) => assert!(same(j), "C13: Deserr for serde_json::Value does not give back the same document"),
        Err(_) => assert!(false, "C13: deserializing a document serde_json can hold into serde_json::Value failed"),
    }
    kani::cover!(x > 1, "reached");
    forget(r);
}
