#![cfg_attr(kani, feature(allocator_api))]
#![allow(dead_code)]
#![allow(static_mut_refs)]
#![allow(clippy::all)]
pub mod stubs;
pub mod vsrc;
pub mod rec;
pub mod h_model;
pub mod h_c19;
pub mod h_c05;
pub mod model;
pub mod props;
pub mod h_std;
pub mod catalogue;
pub mod h_cat;
pub mod h_c18;
pub mod h_c13;
pub mod h_map;
pub mod catalogue_gen;
