#![allow(dead_code)]
#![allow(static_mut_refs)]
#![allow(clippy::all)]
pub mod stubs;
pub mod h_model;
pub mod h_c19;
