//! Stubs used with `-Z stubbing`.  Every stub is listed in the evidence files.

/// `alloc::fmt::format` — message text is outside every claim that uses this stub.
pub fn fmt_stub(_args: core::fmt::Arguments<'_>) -> String {
    String::new()
}

/// `core::str::count::count_chars` (behind `Chars::count`): std's SWAR implementation makes
/// CBMC explore word-aligned chunk loops over a slice of symbolic length; this is the
/// textbook definition (number of non-continuation bytes), used for the `char` harnesses.
pub fn count_chars_stub(s: &str) -> usize {
    let b = s.as_bytes();
    let mut n = 0;
    let mut i = 0;
    while i < b.len() {
        if (b[i] as i8) >= -0x40 {
            n += 1;
        }
        i += 1;
    }
    n
}
