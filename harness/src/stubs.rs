//! Stubs used with `-Z stubbing`.  Every stub is listed in the evidence files.

/// `alloc::fmt::format` — message text is outside every claim that uses this stub.
pub fn fmt_stub(_args: core::fmt::Arguments<'_>) -> String {
    String::new()
}
