//! Map / set targets and CS lists: C01, C06, C12, C15.
//! `insert` of the std maps/sets is stubbed by a call log (DESIGN lesson 4): deserr's
//! obligation - insert the parsed key with the deserialized value entry by entry and
//! return the accumulated error - is decided; std's map semantics are trusted.
//! Natively (replay) the stubs are absent: the post-conditions fall back to the real
//! container when the log is empty.
#![allow(unused_imports)]
use crate::model::*;
use crate::props::*;
use crate::rec::*;
use crate::stubs::fmt_stub;
use crate::vsrc::*;
use deserr::deserialize;
use std::collections::{BTreeMap, BTreeSet, HashMap, HashSet};
use std::str::FromStr;

/// Key type whose FromStr accepts exactly the one-byte strings.
#[derive(Debug, PartialEq, Eq, PartialOrd, Ord, Hash, Clone, Copy)]
pub struct KeyT(pub u8);
impl FromStr for KeyT {
    type Err = ();
    fn from_str(s: &str) -> Result<Self, ()> {
        let b = s.as_bytes();
        if b.len() == 1 {
            Ok(KeyT(b[0]))
        } else {
            Err(())
        }
    }
}

pub const MAP_TAB: [&str; 4] = ["a", "b", "cc", "c"];

pub static mut NINS: usize = 0;
pub static mut INS: [(u8, u8); 4] = [(0, 0); 4];

fn log_insert(k: u8, v: u8) {
    unsafe {
        assert!(NINS < 4, "harness bound: more inserts than 4");
        INS[NINS] = (k, v);
        NINS += 1;
    }
}
fn first_byte<T>(x: &T) -> u8 {
    if core::mem::size_of::<T>() >= 1 {
        unsafe { *(x as *const T as *const u8) }
    } else {
        0
    }
}

pub fn btm_insert_stub<K, V, A>(_m: &mut BTreeMap<K, V, A>, k: K, v: V) -> Option<V>
where
    A: core::alloc::Allocator + Clone,
{
    log_insert(first_byte(&k), first_byte(&v));
    core::mem::forget(k);
    core::mem::forget(v);
    None
}
pub fn bts_insert_stub<T, A>(_m: &mut BTreeSet<T, A>, v: T) -> bool
where
    A: core::alloc::Allocator + Clone,
{
    log_insert(0, first_byte(&v));
    core::mem::forget(v);
    true
}

fn reset_ins() {
    unsafe {
        NINS = 0;
    }
}

/// what the post-conditions need from a map target (native replay inspects the real container)
pub trait MapLike {
    fn get_val(&self, k: &KeyT) -> Option<u8>;
    fn is_empty_(&self) -> bool;
}
impl MapLike for BTreeMap<KeyT, u8> {
    fn get_val(&self, k: &KeyT) -> Option<u8> {
        self.get(k).copied()
    }
    fn is_empty_(&self) -> bool {
        self.is_empty()
    }
}
impl MapLike for HashMap<KeyT, u8> {
    fn get_val(&self, k: &KeyT) -> Option<u8> {
        self.get(k).copied()
    }
    fn is_empty_(&self) -> bool {
        self.is_empty()
    }
}

/// expected reports of a map target keyed by KeyT over the root object (keep-going)
fn map_expect(exp: &mut Exp) {
    let n = node(0);
    if n.kind != K_MAP {
        exp.push(kind_err(&n, &LOC0, &[K_MAP]));
        return;
    }
    let mut j = 0;
    while j < n.len as usize {
        let k = n.keys[j];
        if k == 2 {
            // "cc" cannot be parsed: one report at the map itself
            exp.push(unexp(&LOC0));
        } else {
            u8::expect(n.kids[j], &push_loc(&LOC0, key(k)), exp);
        }
        j += 1;
    }
}

/// the insert log equals the payload's entries in order, keys parsed
fn map_log_ok<M: MapLike>(m: &M) -> bool {
    let n = node(0);
    if unsafe { NINS } == 0 && !m.is_empty_() {
        // native replay: no stub, inspect the real container
        let mut j = 0;
        while j < n.len as usize {
            let kb = MAP_TAB[n.keys[j] as usize].as_bytes()[0];
            // later duplicates win in a real map
            let mut last = j;
            let mut l = j + 1;
            while l < n.len as usize {
                if n.keys[l] == n.keys[j] {
                    last = l;
                }
                l += 1;
            }
            if m.get_val(&KeyT(kb)).map(|v| v as u64) != Some(node(n.kids[last]).u) {
                return false;
            }
            j += 1;
        }
        return true;
    }
    if unsafe { NINS } != n.len as usize {
        return false;
    }
    let mut j = 0;
    while j < n.len as usize {
        let (k, v) = unsafe { INS[j] };
        let kb = MAP_TAB[n.keys[j] as usize].as_bytes()[0];
        if k != kb || v as u64 != node(n.kids[j]).u {
            return false;
        }
        j += 1;
    }
    true
}

#[cfg(kani)]
fn p_map_c01<M: MapLike + deserr::Deserr<Rec<0>>>(n: usize, distinct: bool) {
    set_tab(&MAP_TAB);
    sk_map_tab(n, 4, distinct);
    reset();
    reset_ins();
    set_script(any_script());
    let r = deserialize::<M, SV, Rec<0>>(SV(0));
    post_c01(&r);
    if let Ok(m) = &r {
        assert!(map_log_ok(m), "C06: a map must receive each entry under its parsed key, entry by entry");
    }
    kani::cover!(r.is_ok(), "Ok reached");
    kani::cover!(r.is_err(), "Err reached");
    core::mem::forget(r);
}

#[cfg(kani)]
fn p_map_c02<M: MapLike + deserr::Deserr<Rec<M_LOG>>>(n: usize) {
    set_tab(&MAP_TAB);
    sk_map_tab(n, 4, true);
    reset();
    reset_ins();
    all_continue();
    let r = deserialize::<M, SV, Rec<M_LOG>>(SV(0));
    let mut exp = Exp::new();
    map_expect(&mut exp);
    post_c02(&exp);
    match &r {
        Ok(m) => {
            assert!(exp.n == 0, "C06: a map key that cannot be parsed (or a faulty value) must make the call fail");
            assert!(map_log_ok(m), "C06: a map must receive each entry under its parsed key, entry by entry");
        }
        Err(_) => assert!(exp.n > 0, "C02: Err although the payload contains no fault"),
    }
    kani::cover!(r.is_ok(), "Ok reached");
    kani::cover!(n < 2 || nrep() >= 2, "two reports reached");
    kani::cover!(nrep() >= 1, "a report reached");
    core::mem::forget(r);
}

/// object of n members over the current table (keys < nkeys)
#[cfg(kani)]
pub fn sk_map_tab(n: usize, nkeys: u8, distinct: bool) {
    let kids: [u8; 4] = [1, 2, 3, 4];
    let keys: [u8; 4] = [any_keyid(nkeys), any_keyid(nkeys), any_keyid(nkeys), any_keyid(nkeys)];
    if distinct {
        let mut i = 0;
        while i < n {
            let mut j = i + 1;
            while j < n {
                kani::assume(keys[i] != keys[j]);
                j += 1;
            }
            i += 1;
        }
    }
    let km = [((1u32 << nkeys) - 1) as u16; 4];
    set_node(0, map_node_m(&kids[..n], &keys[..n], &km[..n]));
    let mut i = 0;
    while i < n {
        set_node(1 + i, any_leaf(1));
        i += 1;
    }
}

macro_rules! hm {
    ($name:ident, $body:expr) => {
        #[cfg(kani)]
        #[kani::proof]
        #[kani::unwind(12)]
        #[kani::stub(alloc::fmt::format, fmt_stub)]
        #[kani::stub(std::collections::BTreeMap::insert, btm_insert_stub)]
        #[kani::stub(std::collections::BTreeSet::insert, bts_insert_stub)]
        #[kani::stub(std::collections::HashMap::insert, hm_insert_stub)]
        #[kani::stub(std::hash::RandomState::new, rs_new_stub)]
        pub fn $name() {
            $body;
        }
    };
}

hm!(c01_q_btmap_m1, p_map_c01::<BTreeMap<KeyT, u8>>(1, true));
hm!(c01_t_btmap_m2, p_map_c01::<BTreeMap<KeyT, u8>>(2, true));
hm!(c12_t_btmap_dup_m2, p_map_c01::<BTreeMap<KeyT, u8>>(2, false));
hm!(c06_q_btmap_m1, p_map_c02::<BTreeMap<KeyT, u8>>(1));
hm!(c06_t_btmap_m2, p_map_c02::<BTreeMap<KeyT, u8>>(2));
hm!(c02_t_btmap_m2, p_map_c02::<BTreeMap<KeyT, u8>>(2));

// ---- BTreeSet<u8>: insert log = payload elements in order
#[cfg(kani)]
fn p_set(n: usize) {
    sk_seq(n);
    reset();
    reset_ins();
    all_continue();
    let r = deserialize::<BTreeSet<u8>, SV, Rec<M_LOG>>(SV(0));
    let mut exp = Exp::new();
    <Vec<u8> as Model>::expect(0, &LOC0, &mut exp);
    post_c02(&exp);
    let root = node(0);
    match &r {
        Ok(s) => {
            assert!(exp.n == 0, "C02: Ok although the payload contains a fault");
            if unsafe { NINS } == 0 && !s.is_empty() {
                let mut j = 0;
                while j < root.len as usize {
                    assert!(s.contains(&(node(root.kids[j]).u as u8)), "C06: a set must contain every payload element");
                    j += 1;
                }
            } else {
                assert!(unsafe { NINS } == root.len as usize, "C06: a set must receive every payload element exactly once");
                let mut j = 0;
                while j < root.len as usize {
                    assert!(unsafe { INS[j].1 } as u64 == node(root.kids[j]).u, "C06: a set must receive the payload's elements in order");
                    j += 1;
                }
            }
        }
        Err(_) => assert!(exp.n > 0, "C02: Err although the payload contains no fault"),
    }
    kani::cover!(r.is_ok(), "Ok reached");
    kani::cover!(n < 2 || nrep() >= 2, "two reports reached");
    kani::cover!(nrep() >= 1, "a report reached");
    core::mem::forget(r);
}
hm!(c06_q_btset_s1, p_set(1));
hm!(c06_t_btset_s2, p_set(2));

// ---- C15 for map targets: member order does not change the outcome
#[cfg(kani)]
fn p_map_c15<M: MapLike + deserr::Deserr<Rec<M_LOG>>>(n: usize) {
    set_tab(&MAP_TAB);
    sk_map_tab(n, 4, true);
    reset();
    reset_ins();
    all_continue();
    let r1 = deserialize::<M, SV, Rec<M_LOG>>(SV(0));
    let ok1 = r1.is_ok();
    let n1 = nrep();
    let mut log1 = [REP0; MAXREP];
    let mut i = 0;
    while i < n1 {
        log1[i] = rep(i);
        i += 1;
    }
    let ins1 = unsafe { INS };
    let nins1 = unsafe { NINS };
    core::mem::forget(r1);
    permute_root(n);
    reset();
    reset_ins();
    all_continue();
    let r2 = deserialize::<M, SV, Rec<M_LOG>>(SV(0));
    assert!(ok1 == r2.is_ok(), "C15: success depends on the order of the object's members");
    assert!(n1 == nrep(), "C15: the number of reports depends on the order of the object's members");
    let mut i = 0;
    while i < n1 {
        let mut c1 = 0;
        let mut j = 0;
        while j < n1 {
            if rep_matches(&log1[j], &log1[i]) {
                c1 += 1;
            }
            j += 1;
        }
        assert!(count_in_log(&log1[i]) == c1, "C15: the set of reports depends on the order of the object's members");
        i += 1;
    }
    if ok1 {
        // same entries inserted (as a multiset; keys are distinct)
        assert!(nins1 == unsafe { NINS }, "C15: the value depends on the order of the object's members");
        let mut i = 0;
        while i < nins1 {
            let mut found = false;
            let mut j = 0;
            while j < nins1 {
                if unsafe { INS[j] } == ins1[i] {
                    found = true;
                }
                j += 1;
            }
            assert!(found, "C15: the value depends on the order of the object's members");
            i += 1;
        }
    }
    kani::cover!(ok1, "Ok reached");
    kani::cover!(!ok1, "Err reached");
    core::mem::forget(r2);
}
hm!(c15_t_btmap_m2, p_map_c15::<BTreeMap<KeyT, u8>>(2));


// ---- HashMap<KeyT, u8>: same obligations; `insert` -> call log, `RandomState::new` -> zeroed
// (the real one needs the OS random source, which Kani cannot model)
pub fn hm_insert_stub<K, V, S, A: core::alloc::Allocator>(_m: &mut HashMap<K, V, S, A>, k: K, v: V) -> Option<V> {
    log_insert(first_byte(&k), first_byte(&v));
    core::mem::forget(k);
    core::mem::forget(v);
    None
}
pub fn rs_new_stub() -> std::hash::RandomState {
    unsafe { core::mem::zeroed() }
}


// ---- HashMap<KeyT, u8> (the impl is separate code in src/impls.rs)
hm!(c01_t_hashmap_m1, p_map_c01::<HashMap<KeyT, u8>>(1, true));
hm!(c06_q_hashmap_m1, p_map_c02::<HashMap<KeyT, u8>>(1));
hm!(c01_t_hashmap_m2, p_map_c01::<HashMap<KeyT, u8>>(2, true));
hm!(c06_t_hashmap_m2, p_map_c02::<HashMap<KeyT, u8>>(2));
hm!(c12_t_hashmap_dup_m2, p_map_c01::<HashMap<KeyT, u8>>(2, false));
hm!(c15_t_hashmap_m2, p_map_c15::<HashMap<KeyT, u8>>(2));
