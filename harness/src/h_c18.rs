//! C18 — did-you-mean.  The edit-distance kernel (strsim, a dependency: chars()
//! decoding + a DP over Vecs, out of reach of CBMC within 25 min in the probes) is
//! replaced by its closed form on the harness' string families: every string is
//! a run of ONE letter, so damerau_levenshtein(x^n, x^m) = |n - m| exactly.  The
//! stub therefore returns the TRUE distance for every pair the harness can build,
//! and any sound optimisation of did_you_mean (pre-filters by character count
//! etc.) stays consistent with it.
use deserr::errors::helpers::did_you_mean;

/// bytes per character of the current family (1: 'a', 2: U+00E9)
pub static mut WIDTH: usize = 1;

pub fn dl_stub(a: &str, b: &str) -> usize {
    let w = unsafe { WIDTH };
    (a.len() / w).abs_diff(b.len() / w)
}

/// marker: formatting happened (the text itself is not observed in layer 1)
pub fn fmt_marker(_args: core::fmt::Arguments<'_>) -> String {
    String::from("!")
}

static BUF0: [u8; 64] = [b'a'; 64];
static BUF1: [u8; 64] = [b'a'; 64];
static BUF2: [u8; 64] = [b'a'; 64];
static BUF3: [u8; 64] = [b'a'; 64];
// U+00E9 = C3 A9
static EBUF0: [u8; 64] = ebuf::<64>();
static EBUF1: [u8; 64] = ebuf::<64>();
static EBUF2: [u8; 64] = ebuf::<64>();
static EBUF3: [u8; 64] = ebuf::<64>();

const fn ebuf<const N: usize>() -> [u8; N] {
    let mut b = [0xC3u8; N];
    let mut i = 1;
    while i < N {
        b[i] = 0xA9;
        i += 2;
    }
    b
}

fn s(buf: &'static [u8], chars: usize, w: usize) -> &'static str {
    unsafe { core::str::from_utf8_unchecked(&buf[..chars * w]) }
}

/// the documented budget for a received string of `bytes` bytes; None = no suggestion at all
pub fn budget(bytes: usize) -> Option<usize> {
    if bytes <= 3 {
        None
    } else if bytes <= 7 {
        Some(1)
    } else if bytes <= 12 {
        Some(2)
    } else if bytes <= 17 {
        Some(3)
    } else if bytes <= 24 {
        Some(4)
    } else {
        Some(5)
    }
}

/// Layer 1: emptiness of the suggestion for every received length and every
/// candidate length triple, list length 0..3.
#[cfg(kani)]
fn layer1(w: usize, b0: &'static [u8], b1: &'static [u8], b2: &'static [u8], b3: &'static [u8]) {
    unsafe {
        WIDTH = w;
    }
    let n: usize = kani::any();
    kani::assume(n <= 30);
    let m: [usize; 3] = kani::any();
    kani::assume(m[0] <= 30 && m[1] <= 30 && m[2] <= 30);
    let k: usize = kani::any();
    kani::assume(k <= 3);
    let received = s(b0, n, w);
    let all = [s(b1, m[0], w), s(b2, m[1], w), s(b3, m[2], w)];
    let out = did_you_mean(received, &all[..k]);
    let mut best: Option<usize> = None;
    let mut i = 0;
    while i < k {
        let d = n.abs_diff(m[i]);
        if best.map_or(true, |b| d < b) {
            best = Some(d);
        }
        i += 1;
    }
    let want = match (budget(received.len()), best) {
        (Some(bd), Some(d)) => d <= bd,
        _ => false,
    };
    assert!(out.is_empty() == !want, "C18: a suggestion is made iff the received string has more than 3 bytes and an accepted string lies within the budget");
    kani::cover!(want && k == 3, "suggestion with three candidates");
    kani::cover!(!want && received.len() > 3 && k > 0, "no candidate within budget");
    kani::cover!(want && best == budget(received.len()), "closest candidate exactly at the budget");
    kani::cover!(!want && k > 0 && best.map(|d| d.wrapping_sub(1)) == budget(received.len()), "closest candidate one beyond the budget");
    kani::cover!(want && received.len() > 24, "budget 5 reached");
    core::mem::forget(out);
}

#[cfg(kani)]
#[kani::proof]
#[kani::unwind(5)]
#[kani::stub(strsim::damerau_levenshtein, dl_stub)]
#[kani::stub(alloc::fmt::format, fmt_marker)]
pub fn c18_q_ascii_lengths() {
    layer1(1, &BUF0, &BUF1, &BUF2, &BUF3);
}

#[cfg(kani)]
#[kani::proof]
#[kani::unwind(5)]
#[kani::stub(strsim::damerau_levenshtein, dl_stub)]
#[kani::stub(alloc::fmt::format, fmt_marker)]
pub fn c18_q_multibyte_lengths() {
    layer1(2, &EBUF0, &EBUF1, &EBUF2, &EBUF3);
}

/// Layer 2: real formatting; which candidate is named.  Candidates are concrete
/// strings; the received length is symbolic.  Expected: the earliest candidate at
/// minimal distance, rendered byte for byte as "did you mean `X`? ".
#[cfg(kani)]
fn layer2(cands: &[&'static str]) {
    unsafe {
        WIDTH = 1;
    }
    let n: usize = kani::any();
    kani::assume(n <= 12);
    let received = s(&BUF0, n, 1);
    let out = did_you_mean(received, cands);
    let mut best: Option<(usize, usize)> = None;
    let mut i = 0;
    while i < cands.len() {
        let d = n.abs_diff(cands[i].len());
        if best.map_or(true, |(b, _)| d < b) {
            best = Some((d, i));
        }
        i += 1;
    }
    let want = match (budget(n), best) {
        (Some(bd), Some((d, i))) if d <= bd => Some(i),
        _ => None,
    };
    match want {
        None => assert!(out.is_empty(), "C18: no suggestion expected"),
        Some(i) => {
            let x = cands[i].as_bytes();
            let o = out.as_bytes();
            let pre = b"did you mean `";
            let post = b"`? ";
            assert!(o.len() == pre.len() + x.len() + post.len(), "C18: the suggestion must name exactly the earliest closest accepted string");
            let mut j = 0;
            while j < pre.len() {
                assert!(o[j] == pre[j], "C18: suggestion text");
                j += 1;
            }
            j = 0;
            while j < x.len() {
                assert!(o[pre.len() + j] == x[j], "C18: the suggestion must name exactly the earliest closest accepted string");
                j += 1;
            }
            j = 0;
            while j < post.len() {
                assert!(o[pre.len() + x.len() + j] == post[j], "C18: suggestion text");
                j += 1;
            }
        }
    }
    kani::cover!(want == Some(0), "first candidate named");
    kani::cover!(want.is_none() && n > 3, "nothing within budget");
    core::mem::forget(out);
}

#[cfg(kani)]
#[kani::proof]
#[kani::unwind(16)]
#[kani::stub(strsim::damerau_levenshtein, dl_stub)]
pub fn c18_t_named_tie() {
    // n = 5: both at distance 1 -> the earlier one ("aaaa") must be named
    layer2(&["aaaa", "aaaaaa"]);
}

#[cfg(kani)]
#[kani::proof]
#[kani::unwind(16)]
#[kani::stub(strsim::damerau_levenshtein, dl_stub)]
pub fn c18_t_named_min_last() {
    // the closest candidate is not the first one
    layer2(&["aaaaaaaaa", "aaaaa"]);
}
