//! C18 — did-you-mean.  The edit-distance kernel (strsim, a dependency: chars()
//! decoding + a DP over Vecs, out of reach of CBMC within 25 min in the probes) is
//! replaced by its closed form on the harness' string families: every string is
//! a run of ONE letter, so damerau_levenshtein(x^n, x^m) = |n - m| exactly.  The
//! stub therefore returns the TRUE distance for every pair the harness can build,
//! and any sound optimisation of did_you_mean (pre-filters by character count
//! etc.) stays consistent with it.
use deserr::errors::helpers::did_you_mean;

/// bytes per character of the current family (1: 'a', 2: U+00E9)
pub static mut WIDTH: usize = 1;

pub fn dl_stub(a: &str, b: &str) -> usize {
    let w = unsafe { WIDTH };
    (a.len() / w).abs_diff(b.len() / w)
}

/// marker: formatting happened (the text itself is not observed in layer 1)
pub fn fmt_marker(_args: core::fmt::Arguments<'_>) -> String {
    String::from("!")
}

static BUF0: [u8; 64] = [b'a'; 64];
static BUF1: [u8; 64] = [b'a'; 64];
static BUF2: [u8; 64] = [b'a'; 64];
static BUF3: [u8; 64] = [b'a'; 64];
// U+00E9 = C3 A9
static EBUF0: [u8; 64] = ebuf::<64>();
static EBUF1: [u8; 64] = ebuf::<64>();
static EBUF2: [u8; 64] = ebuf::<64>();
static EBUF3: [u8; 64] = ebuf::<64>();
// U+20AC = E2 82 AC (three bytes per character): 2 characters already have 6 bytes,
// so the byte-based budget and the character-based distance diverge further
static TBUF0: [u8; 63] = tbuf::<63>();
static TBUF1: [u8; 63] = tbuf::<63>();
static TBUF2: [u8; 63] = tbuf::<63>();
static TBUF3: [u8; 63] = tbuf::<63>();

const fn tbuf<const N: usize>() -> [u8; N] {
    let mut b = [0xE2u8; N];
    let mut i = 0;
    while i + 2 < N {
        b[i + 1] = 0x82;
        b[i + 2] = 0xAC;
        i += 3;
    }
    b
}

const fn ebuf<const N: usize>() -> [u8; N] {
    let mut b = [0xC3u8; N];
    let mut i = 1;
    while i < N {
        b[i] = 0xA9;
        i += 2;
    }
    b
}

fn s(buf: &'static [u8], chars: usize, w: usize) -> &'static str {
    unsafe { core::str::from_utf8_unchecked(&buf[..chars * w]) }
}

/// the documented budget for a received string of `bytes` bytes; None = no suggestion at all
pub fn budget(bytes: usize) -> Option<usize> {
    if bytes <= 3 {
        None
    } else if bytes <= 7 {
        Some(1)
    } else if bytes <= 12 {
        Some(2)
    } else if bytes <= 17 {
        Some(3)
    } else if bytes <= 24 {
        Some(4)
    } else {
        Some(5)
    }
}

/// Layer 1: emptiness of the suggestion for every received length and every
/// candidate length triple, list length 0..3.
#[cfg(kani)]
fn layer1(w: usize, b0: &'static [u8], b1: &'static [u8], b2: &'static [u8], b3: &'static [u8]) {
    layer1_n(w, 30, b0, b1, b2, b3)
}

#[cfg(kani)]
fn layer1_n(w: usize, maxc: usize, b0: &'static [u8], b1: &'static [u8], b2: &'static [u8], b3: &'static [u8]) {
    unsafe {
        WIDTH = w;
    }
    let n: usize = kani::any();
    kani::assume(n <= maxc);
    let m: [usize; 3] = kani::any();
    kani::assume(m[0] <= maxc && m[1] <= maxc && m[2] <= maxc);
    let k: usize = kani::any();
    kani::assume(k <= 3);
    let received = s(b0, n, w);
    let all = [s(b1, m[0], w), s(b2, m[1], w), s(b3, m[2], w)];
    let out = did_you_mean(received, &all[..k]);
    let mut best: Option<usize> = None;
    let mut i = 0;
    while i < k {
        let d = n.abs_diff(m[i]);
        if best.map_or(true, |b| d < b) {
            best = Some(d);
        }
        i += 1;
    }
    let want = match (budget(received.len()), best) {
        (Some(bd), Some(d)) => d <= bd,
        _ => false,
    };
    assert!(out.is_empty() == !want, "C18: a suggestion is made iff the received string has more than 3 bytes and an accepted string lies within the budget");
    kani::cover!(want && k == 3, "suggestion with three candidates");
    kani::cover!(!want && received.len() > 3 && k > 0, "no candidate within budget");
    kani::cover!(want && best == budget(received.len()), "closest candidate exactly at the budget");
    kani::cover!(!want && k > 0 && best.map(|d| d.wrapping_sub(1)) == budget(received.len()), "closest candidate one beyond the budget");
    kani::cover!(want && received.len() > 24, "budget 5 reached");
    core::mem::forget(out);
}

#[cfg(kani)]
#[kani::proof]
#[kani::unwind(5)]
#[kani::stub(strsim::damerau_levenshtein, dl_stub)]
#[kani::stub(alloc::fmt::format, fmt_marker)]
pub fn c18_q_ascii_lengths() {
    layer1(1, &BUF0, &BUF1, &BUF2, &BUF3);
}

#[cfg(kani)]
#[kani::proof]
#[kani::unwind(5)]
#[kani::stub(strsim::damerau_levenshtein, dl_stub)]
#[kani::stub(alloc::fmt::format, fmt_marker)]
pub fn c18_q_multibyte_lengths() {
    layer1(2, &EBUF0, &EBUF1, &EBUF2, &EBUF3);
}

/// Layer 2: which candidate is named.  `alloc::fmt::format` is replaced by a probe that
/// runs the REAL formatting machinery (`core::fmt::write`) into a writer recording the
/// (pointer, length) of every piece written: `Display for str` hands the candidate's
/// own slice to the writer, so the named candidate is identified by pointer identity,
/// without any symbolic-length copy.
pub static mut PIECES: [(usize, usize); 4] = [(0, 0); 4];
pub static mut NPIECES: usize = 0;

struct Probe;
impl core::fmt::Write for Probe {
    fn write_str(&mut self, s: &str) -> core::fmt::Result {
        unsafe {
            if NPIECES < 4 {
                PIECES[NPIECES] = (s.as_ptr() as usize, s.len());
            }
            NPIECES += 1;
        }
        Ok(())
    }
}

pub fn fmt_probe(args: core::fmt::Arguments<'_>) -> String {
    let mut p = Probe;
    let _ = core::fmt::write(&mut p, args);
    String::from("!")
}

#[cfg(kani)]
fn layer2(w: usize, b0: &'static [u8], b1: &'static [u8], b2: &'static [u8], b3: &'static [u8]) {
    layer2_n(w, 30, b0, b1, b2, b3)
}

#[cfg(kani)]
fn layer2_n(w: usize, maxc: usize, b0: &'static [u8], b1: &'static [u8], b2: &'static [u8], b3: &'static [u8]) {
    unsafe {
        WIDTH = w;
        NPIECES = 0;
    }
    let n: usize = kani::any();
    kani::assume(n <= maxc);
    let m: [usize; 3] = kani::any();
    kani::assume(m[0] >= 1 && m[1] >= 1 && m[2] >= 1 && m[0] <= maxc && m[1] <= maxc && m[2] <= maxc);
    let received = s(b0, n, w);
    let all = [s(b1, m[0], w), s(b2, m[1], w), s(b3, m[2], w)];
    let out = did_you_mean(received, &all);
    // earliest candidate at minimal distance
    let mut best = (n.abs_diff(m[0]), 0usize);
    let mut i = 1;
    while i < 3 {
        let d = n.abs_diff(m[i]);
        if d < best.0 {
            best = (d, i);
        }
        i += 1;
    }
    let want = match budget(received.len()) {
        Some(bd) if best.0 <= bd => Some(best.1),
        _ => None,
    };
    match want {
        None => assert!(out.is_empty(), "C18: no suggestion expected"),
        Some(i) => {
            assert!(!out.is_empty(), "C18: a suggestion is expected");
            if unsafe { NPIECES } == 0 {
                // native replay: no probe, the real text is there
                let want_txt = ["did you mean `", all[i], "`? "].concat();
                assert!(out == want_txt, "C18: the suggestion must name the earliest accepted string at minimal distance");
            } else {
                assert!(unsafe { NPIECES } == 3, "C18: the suggestion must name exactly one accepted string");
                let (p, l) = unsafe { PIECES[1] };
                assert!(p == all[i].as_ptr() as usize && l == all[i].len(), "C18: the suggestion must name the earliest accepted string at minimal distance");
            }
        }
    }
    kani::cover!(want == Some(0) && n.abs_diff(m[1]) == best.0, "tie: the earliest is named");
    kani::cover!(want == Some(2), "the closest candidate is the last one");
    kani::cover!(want.is_none() && received.len() > 3, "nothing within budget");
    core::mem::forget(out);
}

#[cfg(kani)]
#[kani::proof]
#[kani::unwind(5)]
#[kani::stub(strsim::damerau_levenshtein, dl_stub)]
#[kani::stub(alloc::fmt::format, fmt_probe)]
pub fn c18_q_named_ascii() {
    layer2(1, &BUF0, &BUF1, &BUF2, &BUF3);
}

#[cfg(kani)]
#[kani::proof]
#[kani::unwind(5)]
#[kani::stub(strsim::damerau_levenshtein, dl_stub)]
#[kani::stub(alloc::fmt::format, fmt_probe)]
pub fn c18_t_named_multibyte() {
    layer2(2, &EBUF0, &EBUF1, &EBUF2, &EBUF3);
}

/// three-byte characters, up to 21 characters (63 bytes): every budget class is reached
/// with fewer characters than bytes (2 characters = 6 bytes = budget 1)
#[cfg(kani)]
#[kani::proof]
#[kani::unwind(5)]
#[kani::stub(strsim::damerau_levenshtein, dl_stub)]
#[kani::stub(alloc::fmt::format, fmt_marker)]
pub fn c18_t_threebyte_lengths() {
    layer1_n(3, 21, &TBUF0, &TBUF1, &TBUF2, &TBUF3);
}

#[cfg(kani)]
#[kani::proof]
#[kani::unwind(5)]
#[kani::stub(strsim::damerau_levenshtein, dl_stub)]
#[kani::stub(alloc::fmt::format, fmt_probe)]
pub fn c18_t_named_threebyte() {
    layer2_n(3, 21, &TBUF0, &TBUF1, &TBUF2, &TBUF3);
}

/// ASCII up to 64 bytes: twice the quick tier's range, far into the constant budget-5 class
#[cfg(kani)]
#[kani::proof]
#[kani::unwind(5)]
#[kani::stub(strsim::damerau_levenshtein, dl_stub)]
#[kani::stub(alloc::fmt::format, fmt_marker)]
pub fn c18_t_ascii_lengths_64() {
    layer1_n(1, 64, &BUF0, &BUF1, &BUF2, &BUF3);
}

// ---- mixed letters: a candidate may be a run of ANOTHER letter ('b'), whose true
// Damerau-Levenshtein distance to a^n is max(n, m) (n or m substitutions plus the length
// difference; no transposition applies).  A candidate of nearly the received length can
// therefore be far away: replacing the kernel by a comparison of lengths is detected.
static BBUF1: [u8; 64] = [b'b'; 64];
static BBUF2: [u8; 64] = [b'b'; 64];
static BBUF3: [u8; 64] = [b'b'; 64];

pub fn dl_stub_mixed(a: &str, b: &str) -> usize {
    let (x, y) = (a.as_bytes(), b.as_bytes());
    if x.is_empty() || y.is_empty() || x[0] != y[0] {
        if x.len() > y.len() { x.len() } else { y.len() }
    } else {
        x.len().abs_diff(y.len())
    }
}

#[cfg(kani)]
#[kani::proof]
#[kani::unwind(5)]
#[kani::stub(strsim::damerau_levenshtein, dl_stub_mixed)]
#[kani::stub(alloc::fmt::format, fmt_marker)]
pub fn c18_t_mixed_letters() {
    let n: usize = kani::any();
    kani::assume(n <= 30);
    let m: [usize; 3] = kani::any();
    kani::assume(m[0] <= 30 && m[1] <= 30 && m[2] <= 30);
    let other: [bool; 3] = kani::any();
    let k: usize = kani::any();
    kani::assume(k <= 3);
    let received = s(&BUF0, n, 1);
    let all = [
        if other[0] { s(&BBUF1, m[0], 1) } else { s(&BUF1, m[0], 1) },
        if other[1] { s(&BBUF2, m[1], 1) } else { s(&BUF2, m[1], 1) },
        if other[2] { s(&BBUF3, m[2], 1) } else { s(&BUF3, m[2], 1) },
    ];
    let out = did_you_mean(received, &all[..k]);
    let mut best: Option<usize> = None;
    let mut i = 0;
    while i < k {
        let d = if other[i] { if n > m[i] { n } else { m[i] } } else { n.abs_diff(m[i]) };
        if best.map_or(true, |b| d < b) {
            best = Some(d);
        }
        i += 1;
    }
    let want = match (budget(received.len()), best) {
        (Some(bd), Some(d)) => d <= bd,
        _ => false,
    };
    assert!(out.is_empty() == !want, "C18: a suggestion is made iff the received string has more than 3 bytes and an accepted string lies within the budget");
    kani::cover!(!want && k == 3 && n > 3 && other[0] && other[1] && other[2] && m[0] == n, "same length, other letter: no suggestion");
    kani::cover!(want && k == 2 && other[0] && !other[1], "the far candidate of another letter does not hide the near one");
    core::mem::forget(out);
}
