//! `SV` — the second `IntoValue` implementation: an index into a static arena of
//! flat nodes.  Payloads are addressable (a reported location can be resolved
//! against the arena), maps preserve member order and may hold duplicate keys,
//! nothing has drop glue.
use deserr::{IntoValue, Map, Sequence, Value, ValueKind};

pub const NN: usize = 10;
pub const MAXK: usize = 4;

pub const K_NULL: u8 = 0;
pub const K_BOOL: u8 = 1;
pub const K_INT: u8 = 2;
pub const K_NEG: u8 = 3;
pub const K_FLOAT: u8 = 4;
pub const K_STR: u8 = 5;
pub const K_SEQ: u8 = 6;
pub const K_MAP: u8 = 7;

#[derive(Clone, Copy)]
pub struct Node {
    pub kind: u8,
    pub b: bool,
    pub u: u64,
    pub i: i64,
    pub f: f64,
    /// string id (index into the harness' string table)
    pub s: u8,
    pub len: u8,
    pub kids: [u8; MAXK],
    /// key string ids of a map's members
    pub keys: [u8; MAXK],
    /// CONCRETE candidate sets (bit j: table entry j is possible) of the member keys and of
    /// the leaf's string: lets the symbolic executor skip the impossible table entries
    pub kmask: [u16; MAXK],
    pub smask: u16,
}

pub const NODE0: Node = Node { kind: 0, b: false, u: 0, i: 0, f: 0.0, s: 0, len: 0, kids: [0; MAXK], keys: [0; MAXK], kmask: [0xffff; MAXK], smask: 0xffff };

pub static mut ARENA: [Node; NN] = [NODE0; NN];
/// number of `into_value` / iterator `next` / `remove` calls so far
pub static mut EXAMINED: u32 = 0;
/// bit i set: node i has been turned into a `Value`
pub static mut SEEN: u32 = 0;

/// The harness' string table: every string a payload can contain.  Set concretely
/// at the start of each harness (`set_tab`); `TABN` entries are in use.
pub const NSTR: usize = 8;
pub static mut TAB: [&'static str; NSTR] = [""; NSTR];
pub static mut TABN: usize = 0;

pub fn reset_src() {
    unsafe {
        EXAMINED = 0;
        SEEN = 0;
    }
}

/// One concrete branch per candidate (never a symbolic-length copy).  `TABN` and `mask`
/// are concrete, so the branches of impossible candidates are pruned by constant
/// propagation; the last possible candidate is the default arm.
pub fn mkstr_m(id: u8, mask: u16) -> String {
    unsafe {
        let n = TABN;
        // index of the last possible candidate
        let mut last = 0usize;
        let mut j = 0usize;
        while j < n {
            if mask & (1 << j) != 0 {
                last = j;
            }
            j += 1;
        }
        let mut j = 0usize;
        while j < n {
            if mask & (1 << j) != 0 && (j == last || id as usize == j) {
                return TAB[j].to_string();
            }
            j += 1;
        }
        TAB[last].to_string()
    }
}

pub fn mkstr(id: u8) -> String {
    mkstr_m(id, 0xffff)
}

/// Identify a string of the table by (length, first byte, last byte).  The tables
/// are chosen so that this is injective; `set_tab` asserts it.  255: not in the table.
pub fn ident(s: &str) -> u8 {
    let b = s.as_bytes();
    let n = b.len();
    let mut i = 0;
    while i < unsafe { TABN } {
        let t = unsafe { TAB[i] }.as_bytes();
        if t.len() == n && (n == 0 || (t[0] == b[0] && t[n - 1] == b[n - 1])) {
            return i as u8;
        }
        i += 1;
    }
    255
}

pub fn set_tab(t: &[&'static str]) {
    assert!(t.len() <= NSTR, "harness: string table too long");
    unsafe {
        TABN = t.len();
        let mut i = 0;
        while i < t.len() {
            TAB[i] = t[i];
            i += 1;
        }
    }
    // injectivity of `ident` on the table (concrete: folded by the symbolic executor)
    let mut i = 0;
    while i < t.len() {
        let mut j = i + 1;
        while j < t.len() {
            let a = t[i].as_bytes();
            let b = t[j].as_bytes();
            let same = a.len() == b.len() && (a.len() == 0 || (a[0] == b[0] && a[a.len() - 1] == b[b.len() - 1]));
            assert!(!same, "harness: string table must be identifiable by (len, first, last)");
            j += 1;
        }
        i += 1;
    }
}

pub fn vk(kind: u8) -> ValueKind {
    match kind {
        K_NULL => ValueKind::Null,
        K_BOOL => ValueKind::Boolean,
        K_INT => ValueKind::Integer,
        K_NEG => ValueKind::NegativeInteger,
        K_FLOAT => ValueKind::Float,
        K_STR => ValueKind::String,
        K_SEQ => ValueKind::Sequence,
        _ => ValueKind::Map,
    }
}

pub fn kcode(k: ValueKind) -> u8 {
    match k {
        ValueKind::Null => K_NULL,
        ValueKind::Boolean => K_BOOL,
        ValueKind::Integer => K_INT,
        ValueKind::NegativeInteger => K_NEG,
        ValueKind::Float => K_FLOAT,
        ValueKind::String => K_STR,
        ValueKind::Sequence => K_SEQ,
        ValueKind::Map => K_MAP,
    }
}

#[derive(Clone, Copy, Debug)]
pub struct SV(pub u8);

#[derive(Clone, Copy, Debug)]
pub struct SSeq(pub u8);

#[derive(Clone, Copy, Debug)]
pub struct SMap {
    pub node: u8,
    pub removed: u8,
}

pub struct SSeqIter {
    node: u8,
    pos: u8,
}

pub struct SMapIter {
    node: u8,
    pos: u8,
    removed: u8,
}

impl IntoValue for SV {
    type Sequence = SSeq;
    type Map = SMap;

    fn kind(&self) -> ValueKind {
        vk(unsafe { ARENA[self.0 as usize].kind })
    }

    fn into_value(self) -> Value<Self> {
        unsafe {
            EXAMINED += 1;
            SEEN |= 1u32 << self.0;
            let n = ARENA[self.0 as usize];
            match n.kind {
                K_NULL => Value::Null,
                K_BOOL => Value::Boolean(n.b),
                K_INT => Value::Integer(n.u),
                K_NEG => Value::NegativeInteger(n.i),
                K_FLOAT => Value::Float(n.f),
                K_STR => Value::String(mkstr_m(n.s, n.smask)),
                K_SEQ => Value::Sequence(SSeq(self.0)),
                _ => Value::Map(SMap { node: self.0, removed: 0 }),
            }
        }
    }
}

impl Sequence for SSeq {
    type Value = SV;
    type Iter = SSeqIter;

    fn len(&self) -> usize {
        unsafe { ARENA[self.0 as usize].len as usize }
    }

    fn into_iter(self) -> SSeqIter {
        SSeqIter { node: self.0, pos: 0 }
    }
}

impl Iterator for SSeqIter {
    type Item = SV;
    fn next(&mut self) -> Option<SV> {
        unsafe {
            let n = &ARENA[self.node as usize];
            if self.pos < n.len {
                let k = n.kids[self.pos as usize];
                self.pos += 1;
                EXAMINED += 1;
                Some(SV(k))
            } else {
                None
            }
        }
    }
}

impl Map for SMap {
    type Value = SV;
    type Iter = SMapIter;

    fn len(&self) -> usize {
        unsafe {
            let n = &ARENA[self.node as usize];
            let mut c = 0;
            let mut i = 0;
            while i < n.len {
                if self.removed & (1 << i) == 0 {
                    c += 1;
                }
                i += 1;
            }
            c
        }
    }

    /// Removes the first live member with that key (like an order preserving map).
    fn remove(&mut self, key: &str) -> Option<SV> {
        unsafe {
            EXAMINED += 1;
            let n = &ARENA[self.node as usize];
            let id = ident(key);
            let mut i = 0;
            while i < n.len {
                if self.removed & (1 << i) == 0 && id < 16 && n.kmask[i as usize] & (1 << id) != 0 && n.keys[i as usize] == id {
                    self.removed |= 1 << i;
                    return Some(SV(n.kids[i as usize]));
                }
                i += 1;
            }
            None
        }
    }

    fn into_iter(self) -> SMapIter {
        SMapIter { node: self.node, pos: 0, removed: self.removed }
    }
}

impl Iterator for SMapIter {
    type Item = (String, SV);
    fn next(&mut self) -> Option<(String, SV)> {
        unsafe {
            let n = &ARENA[self.node as usize];
            while self.pos < n.len {
                let p = self.pos;
                self.pos += 1;
                if self.removed & (1 << p) == 0 {
                    EXAMINED += 1;
                    return Some((mkstr_m(n.keys[p as usize], n.kmask[p as usize]), SV(n.kids[p as usize])));
                }
            }
            None
        }
    }
}

// ------------------------------------------------------------ arena builders

#[cfg(kani)]
pub fn any_leaf_kind() -> u8 {
    let k: u8 = kani::any();
    kani::assume(k <= K_STR);
    k
}

/// A leaf with symbolic kind in {null,bool,int,neg,float,string}, symbolic full-width
/// numbers and a string id below `nstr`.
#[cfg(kani)]
pub fn any_leaf(nstr: u8) -> Node {
    let s: u8 = kani::any();
    kani::assume(s < nstr);
    Node { kind: any_leaf_kind(), b: kani::any(), u: kani::any(), i: kani::any(), f: kani::any(), s, smask: ((1u32 << nstr) - 1) as u16, ..NODE0 }
}

#[cfg(kani)]
pub fn any_keyid(nstr: u8) -> u8 {
    let s: u8 = kani::any();
    kani::assume(s < nstr);
    s
}

pub fn set_node(i: usize, n: Node) {
    unsafe {
        ARENA[i] = n;
    }
}

pub fn seq_node(kids: &[u8]) -> Node {
    let mut n = NODE0;
    n.kind = K_SEQ;
    n.len = kids.len() as u8;
    let mut i = 0;
    while i < kids.len() {
        n.kids[i] = kids[i];
        i += 1;
    }
    n
}

/// like `map_node`, with the concrete candidate set of every key
pub fn map_node_m(kids: &[u8], keys: &[u8], masks: &[u16]) -> Node {
    let mut n = map_node(kids, keys);
    let mut i = 0;
    while i < kids.len() {
        n.kmask[i] = masks[i];
        i += 1;
    }
    n
}

pub fn set_mask(set: &[u8]) -> u16 {
    let mut m = 0u16;
    let mut i = 0;
    while i < set.len() {
        m |= 1 << set[i];
        i += 1;
    }
    m
}

pub fn map_node(kids: &[u8], keys: &[u8]) -> Node {
    let mut n = NODE0;
    n.kind = K_MAP;
    n.len = kids.len() as u8;
    let mut i = 0;
    while i < kids.len() {
        n.kids[i] = kids[i];
        n.keys[i] = keys[i];
        i += 1;
    }
    n
}

pub fn node(i: u8) -> Node {
    unsafe { ARENA[i as usize] }
}
