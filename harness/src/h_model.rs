//! Sanity harnesses for modelling assumptions of the harness crate itself.

/// Strings are always produced one concrete branch per candidate (DESIGN lesson 2);
/// this harness checks that a string produced that way compares equal to its source
/// and different from the other candidates under CBMC.
#[cfg(kani)]
#[kani::proof]
#[kani::unwind(6)]
pub fn c00_q_model_string() {
    let k: u8 = kani::any();
    kani::assume(k < 3);
    let s = match k {
        0 => "a".to_string(),
        1 => "bc".to_string(),
        _ => "xyz".to_string(),
    };
    match s.as_str() {
        "a" => assert!(k == 0),
        "bc" => assert!(k == 1),
        "xyz" => assert!(k == 2),
        _ => assert!(false, "model: string produced branch-wise must match its source"),
    }
    kani::cover!(k == 2, "reached");
    core::mem::forget(s);
}
