//! Reference model of the documented semantics, type-directed: for a target type
//! `T` and a payload node, (a) the reports a keep-going error type must receive,
//! (b) whether a produced value equals the payload.  Written from the
//! documentation (book/, rustdoc), never from deserr's code.
use crate::rec::*;
use crate::vsrc::*;

pub const MAXEXP: usize = MAXREP;

pub struct Exp {
    pub n: usize,
    pub r: [Rep; MAXEXP],
}

impl Exp {
    pub fn new() -> Self {
        Exp { n: 0, r: [REP0; MAXEXP] }
    }
    pub fn push(&mut self, r: Rep) {
        assert!(self.n < MAXEXP, "harness bound: more expected reports than MAXEXP");
        self.r[self.n] = r;
        self.n += 1;
    }
}

pub fn push_loc(l: &Loc, s: StepC) -> Loc {
    let mut o = *l;
    if (l.depth as usize) < MAXDEPTH {
        o.steps[l.depth as usize] = s;
        o.depth = l.depth + 1;
    } else {
        o.depth = 255;
    }
    o
}

pub fn scalar_of(n: &Node) -> u64 {
    match n.kind {
        K_NULL => 0,
        K_BOOL => n.b as u64,
        K_INT => n.u,
        K_NEG => n.i as u64,
        K_FLOAT => n.f.to_bits(),
        K_STR => n.s as u64,
        _ => n.len as u64,
    }
}

/// a kind error: `actual` is the node, `accepted` the given kinds
pub fn kind_err(n: &Node, loc: &Loc, accepted: &[u8]) -> Rep {
    let mut r = REP0;
    r.kind = R_KIND;
    r.loc = *loc;
    r.d = n.kind;
    r.val = scalar_of(n);
    let mut i = 0;
    while i < accepted.len() {
        r.acc |= 1 << accepted[i];
        i += 1;
    }
    r.acc2 = accepted.len() as u16;
    r
}

pub fn unexp(loc: &Loc) -> Rep {
    let mut r = REP0;
    r.kind = R_UNEXP;
    r.loc = *loc;
    r
}

pub fn badlen(n: &Node, loc: &Loc, expected: usize) -> Rep {
    let mut r = REP0;
    r.kind = R_BADLEN;
    r.loc = *loc;
    r.d = n.len;
    r.val = expected as u64;
    r
}

pub fn missing(loc: &Loc, key: u8) -> Rep {
    let mut r = REP0;
    r.kind = R_MISSING;
    r.loc = *loc;
    r.d = key;
    r
}

pub fn unknown_key(loc: &Loc, key: u8, accepted: &[u8]) -> Rep {
    let mut r = REP0;
    r.kind = R_UNKKEY;
    r.loc = *loc;
    r.d = key;
    r.acc = accepted.len() as u16;
    let mut i = 0;
    while i < accepted.len() && i < 4 {
        r.acc2 |= ((accepted[i] & 15) as u16) << (4 * i);
        i += 1;
    }
    r
}

pub fn unknown_value(loc: &Loc, val: u8, accepted: &[u8]) -> Rep {
    let mut r = unknown_key(loc, val, accepted);
    r.kind = R_UNKVAL;
    r
}

pub fn foreign(loc: &Loc, tag: u8) -> Rep {
    let mut r = REP0;
    r.kind = R_FOREIGN;
    r.loc = *loc;
    r.d = tag;
    r
}

pub trait Model {
    /// reports a keep-going error type receives for the payload at `node`, located at `loc`
    fn expect(node: u8, loc: &Loc, exp: &mut Exp);
    /// the value equals the payload at `node`
    fn matches(&self, node: u8) -> bool;
}

impl Model for u8 {
    fn expect(node: u8, loc: &Loc, exp: &mut Exp) {
        let n = crate::vsrc::node(node);
        if n.kind != K_INT {
            exp.push(kind_err(&n, loc, &[K_INT]));
        } else if n.u > 255 {
            exp.push(unexp(loc));
        }
    }
    fn matches(&self, node: u8) -> bool {
        let n = crate::vsrc::node(node);
        n.kind == K_INT && n.u == *self as u64
    }
}

impl Model for bool {
    fn expect(node: u8, loc: &Loc, exp: &mut Exp) {
        let n = crate::vsrc::node(node);
        if n.kind != K_BOOL {
            exp.push(kind_err(&n, loc, &[K_BOOL]));
        }
    }
    fn matches(&self, node: u8) -> bool {
        let n = crate::vsrc::node(node);
        n.kind == K_BOOL && n.b == *self
    }
}

impl Model for i8 {
    fn expect(node: u8, loc: &Loc, exp: &mut Exp) {
        let n = crate::vsrc::node(node);
        if n.kind == K_INT {
            if n.u > 127 {
                exp.push(unexp(loc));
            }
        } else if n.kind == K_NEG {
            if n.i < -128 || n.i > 127 {
                exp.push(unexp(loc));
            }
        } else {
            exp.push(kind_err(&n, loc, &[K_INT, K_NEG]));
        }
    }
    fn matches(&self, node: u8) -> bool {
        let n = crate::vsrc::node(node);
        (n.kind == K_INT && n.u as i128 == *self as i128) || (n.kind == K_NEG && n.i as i128 == *self as i128)
    }
}

impl Model for String {
    fn expect(node: u8, loc: &Loc, exp: &mut Exp) {
        let n = crate::vsrc::node(node);
        if n.kind != K_STR {
            exp.push(kind_err(&n, loc, &[K_STR]));
        }
    }
    fn matches(&self, node: u8) -> bool {
        let n = crate::vsrc::node(node);
        n.kind == K_STR && ident(self) == n.s
    }
}

impl<T: Model> Model for Option<T> {
    fn expect(node: u8, loc: &Loc, exp: &mut Exp) {
        if crate::vsrc::node(node).kind != K_NULL {
            T::expect(node, loc, exp);
        }
    }
    fn matches(&self, node: u8) -> bool {
        match self {
            None => crate::vsrc::node(node).kind == K_NULL,
            Some(x) => crate::vsrc::node(node).kind != K_NULL && x.matches(node),
        }
    }
}

impl<T: Model> Model for Box<T> {
    fn expect(node: u8, loc: &Loc, exp: &mut Exp) {
        T::expect(node, loc, exp);
    }
    fn matches(&self, node: u8) -> bool {
        (**self).matches(node)
    }
}

impl<T: Model> Model for Vec<T> {
    fn expect(node: u8, loc: &Loc, exp: &mut Exp) {
        let n = crate::vsrc::node(node);
        if n.kind != K_SEQ {
            exp.push(kind_err(&n, loc, &[K_SEQ]));
            return;
        }
        let mut i = 0;
        while i < n.len as usize {
            T::expect(n.kids[i], &push_loc(loc, idx(i as u8)), exp);
            i += 1;
        }
    }
    fn matches(&self, node: u8) -> bool {
        let n = crate::vsrc::node(node);
        if n.kind != K_SEQ || n.len as usize != self.len() {
            return false;
        }
        let mut i = 0;
        while i < self.len() {
            if !self[i].matches(n.kids[i]) {
                return false;
            }
            i += 1;
        }
        true
    }
}

impl<T: Model, const N: usize> Model for [T; N] {
    fn expect(node: u8, loc: &Loc, exp: &mut Exp) {
        let n = crate::vsrc::node(node);
        if n.kind != K_SEQ {
            exp.push(kind_err(&n, loc, &[K_SEQ]));
            return;
        }
        if n.len as usize != N {
            exp.push(badlen(&n, loc, N));
            return;
        }
        let mut i = 0;
        while i < N {
            T::expect(n.kids[i], &push_loc(loc, idx(i as u8)), exp);
            i += 1;
        }
    }
    fn matches(&self, node: u8) -> bool {
        let n = crate::vsrc::node(node);
        if n.kind != K_SEQ || n.len as usize != N {
            return false;
        }
        let mut i = 0;
        while i < N {
            if !self[i].matches(n.kids[i]) {
                return false;
            }
            i += 1;
        }
        true
    }
}

impl<A: Model, B: Model> Model for (A, B) {
    fn expect(node: u8, loc: &Loc, exp: &mut Exp) {
        let n = crate::vsrc::node(node);
        if n.kind != K_SEQ {
            exp.push(kind_err(&n, loc, &[K_SEQ]));
            return;
        }
        if n.len != 2 {
            exp.push(badlen(&n, loc, 2));
            return;
        }
        A::expect(n.kids[0], &push_loc(loc, idx(0)), exp);
        B::expect(n.kids[1], &push_loc(loc, idx(1)), exp);
    }
    fn matches(&self, node: u8) -> bool {
        let n = crate::vsrc::node(node);
        n.kind == K_SEQ && n.len == 2 && self.0.matches(n.kids[0]) && self.1.matches(n.kids[1])
    }
}

impl<A: Model, B: Model, C: Model> Model for (A, B, C) {
    fn expect(node: u8, loc: &Loc, exp: &mut Exp) {
        let n = crate::vsrc::node(node);
        if n.kind != K_SEQ {
            exp.push(kind_err(&n, loc, &[K_SEQ]));
            return;
        }
        if n.len != 3 {
            exp.push(badlen(&n, loc, 3));
            return;
        }
        A::expect(n.kids[0], &push_loc(loc, idx(0)), exp);
        B::expect(n.kids[1], &push_loc(loc, idx(1)), exp);
        C::expect(n.kids[2], &push_loc(loc, idx(2)), exp);
    }
    fn matches(&self, node: u8) -> bool {
        let n = crate::vsrc::node(node);
        n.kind == K_SEQ && n.len == 3 && self.0.matches(n.kids[0]) && self.1.matches(n.kids[1]) && self.2.matches(n.kids[2])
    }
}

/// C02: the log holds exactly the expected reports, each exactly once.
pub fn post_c02(exp: &Exp) {
    assert!(nrep() == exp.n, "C02: number of reports differs from the number of independent faults");
    let mut i = 0;
    while i < exp.n {
        assert!(count_in_log(&exp.r[i]) == 1, "C02: an independent fault was not reported exactly once (kind, location, detail)");
        i += 1;
    }
}

/// like `post_c02`, with every expectation attributed to the property it belongs to
pub fn post_tagged(exp: &Exp) {
    assert!(nrep() == exp.n, "C02: number of reports differs from the number of independent faults");
    let mut i = 0;
    while i < exp.n {
        let c = count_in_log(&exp.r[i]);
        match exp.r[i].tag {
            8 => assert!(c == 1, "C08: a missing field is not reported exactly once with its effective key at the container"),
            9 => assert!(c == 1, "C09: an unknown key is not reported exactly once with the accepted keys at the container"),
            10 => assert!(c == 1, "C10: the tag / variant fault is not reported exactly once at the right place"),
            11 => assert!(c == 1, "C11: a failed conversion / validation is not reported exactly once at the right place"),
            _ => assert!(c == 1, "C02: an independent fault was not reported exactly once (kind, location, detail)"),
        }
        i += 1;
    }
    // every report made must be an expected one; an unexpected report is attributed by what it claims
    let mut i = 0;
    while i < nrep() {
        let r = rep(i);
        let mut c = 0;
        let mut j = 0;
        while j < exp.n {
            if rep_matches(&r, &exp.r[j]) {
                c += 1;
            }
            j += 1;
        }
        match r.kind {
            R_MISSING => assert!(c >= 1, "C07: a field was reported missing although no such report is due (field looked up under a key that is not its effective key, or wrong key / place in the report)"),
            R_UNKKEY => assert!(c >= 1, "C09: a key was reported unknown although no such report is due (known key, tag key, or no deny_unknown_fields)"),
            R_FOREIGN => assert!(c >= 1, "C11: a conversion / validation / custom error was reported although none is due"),
            _ => assert!(c >= 1, "C02: a report was made that corresponds to no fault of the payload"),
        }
        i += 1;
    }
}
