//! Derive catalogue over the arena value source.
//! Naming: cNN_[q|t]_<type>_<skeleton>; the `c02_*` family is the reference-model
//! comparison shared by C02 / C07 / C08 / C09 / C10 / C11 (assertions are tagged).
use crate::catalogue::*;
use crate::props::*;
use crate::stubs::fmt_stub;

macro_rules! hc {
    ($name:ident, $sk:ident($($a:expr),*), $p:ident::<$t:ty>($($b:expr),*)) => {
        #[cfg(kani)]
        #[kani::proof]
        #[kani::unwind(12)]
        #[kani::stub(alloc::fmt::format, fmt_stub)]
        pub fn $name() {
            $sk($($a),*);
            $p::<$t>($($b),*);
        }
    };
}

// ---- reference-model comparison (keep-going)
hc!(c02_t_s1_m2, sk_obj(&S1_TAB, 2, 7), p_cat::<S1>(true, true));
hc!(c02_t_s2_m2, sk_obj(&S2_TAB, 2, 6), p_cat::<S2>(true, true));
hc!(c02_t_s3_m2, sk_obj(&S3_TAB, 2, 5), p_cat::<S3>(false, true));
hc!(c02_t_s4_m2, sk_obj(&S4_TAB, 2, 5), p_cat::<S4>(true, true));
hc!(c02_t_s5_m2, sk_obj(&S5_TAB, 2, 4), p_cat::<S5>(false, true));
hc!(c02_t_s6_m2, sk_obj(&S6_TAB, 2, 3), p_cat::<S6>(true, true));
hc!(c02_q_c1_leaf, sk_leaf_tab(&S6_TAB), p_cat::<C1>(true, false));
hc!(c02_q_c2_leaf, sk_leaf_tab(&S6_TAB), p_cat::<C2>(true, false));
hc!(c02_q_e1_tag1, sk_enum(&E1_TAB, true, 0, &[1, 2, 3, 7], 1, &[4, 5, 6]), p_cat::<E1>(true, true));
hc!(c02_q_e1_notag, sk_enum(&E1_TAB, false, 0, &[1], 1, &[4, 5, 1]), p_cat::<E1>(false, false));
hc!(c02_t_e1_tag2, sk_enum(&E1_TAB, true, 0, &[1, 2, 3, 7], 2, &[4, 5, 6, 0]), p_cat::<E1>(true, true));
hc!(c02_q_e2_tag1, sk_enum(&E2_TAB, true, 0, &[1, 2, 6], 1, &[3, 4, 5]), p_cat::<E2>(true, true));
hc!(c02_t_e2_tag2, sk_enum(&E2_TAB, true, 0, &[1, 2, 6], 2, &[3, 4, 5]), p_cat::<E2>(true, true));
hc!(c02_q_e3_leaf, sk_leaf_tab(&E3_TAB), p_cat::<E3>(true, false));
hc!(c02_t_s1_m3, sk_obj(&S1_TAB, 3, 7), p_cat::<S1>(true, true));
hc!(c02_t_s2_m3, sk_obj(&S2_TAB, 3, 6), p_cat::<S2>(true, true));
hc!(c02_t_s3_m3, sk_obj(&S3_TAB, 3, 5), p_cat::<S3>(true, true));
hc!(c02_t_s4_m3, sk_obj(&S4_TAB, 3, 5), p_cat::<S4>(true, true));
hc!(c02_t_s5_m3, sk_obj(&S5_TAB, 3, 4), p_cat::<S5>(true, true));
hc!(c02_t_s1_m1, sk_obj(&S1_TAB, 1, 7), p_cat::<S1>(false, true));

// ---- C01: free script
hc!(c01_t_s1_m2, sk_obj(&S1_TAB, 2, 7), p_c01::<S1>(true));
hc!(c01_t_s3_m2, sk_obj(&S3_TAB, 2, 5), p_c01::<S3>(false));
hc!(c01_t_s4_m2, sk_obj(&S4_TAB, 2, 5), p_c01::<S4>(true));
hc!(c01_t_s5_m2, sk_obj(&S5_TAB, 2, 4), p_c01::<S5>(false));
hc!(c01_q_e1_tag1, sk_enum(&E1_TAB, true, 0, &[1, 2, 3, 7], 1, &[4, 5, 6]), p_c01::<E1>(true));
hc!(c01_t_s2_m3, sk_obj(&S2_TAB, 3, 6), p_c01::<S2>(true));
hc!(c01_t_s3_m3, sk_obj(&S3_TAB, 3, 5), p_c01::<S3>(true));
hc!(c01_t_s4_m3, sk_obj(&S4_TAB, 3, 5), p_c01::<S4>(true));
hc!(c01_t_s5_m3, sk_obj(&S5_TAB, 3, 4), p_c01::<S5>(true));
hc!(c01_t_s6_m2, sk_obj(&S6_TAB, 2, 3), p_c01::<S6>(true));
hc!(c01_t_c1_leaf, sk_leaf_tab(&S6_TAB), p_c01::<C1>(true));
hc!(c01_t_e3_leaf, sk_leaf_tab(&E3_TAB), p_c01::<E3>(true));

// ---- C03
hc!(c03_t_s3_m2, sk_obj(&S3_TAB, 2, 5), p_c03::<S3>(true));
hc!(c03_q_e1_tag1, sk_enum(&E1_TAB, true, 0, &[1, 2, 3, 7], 1, &[4, 5, 6]), p_c03::<E1>(true));
hc!(c03_t_s5_m2, sk_obj(&S5_TAB, 2, 4), p_c03::<S5>(true));
hc!(c03_t_s6_m2, sk_obj(&S6_TAB, 2, 3), p_c03::<S6>(true));

// ---- C04
hc!(c04_t_s1_m2, sk_obj(&S1_TAB, 2, 7), p_c04::<S1>(true));
hc!(c04_q_e1_tag1, sk_enum(&E1_TAB, true, 0, &[1, 2, 3, 7], 1, &[4, 5, 6]), p_c04::<E1>(true));
hc!(c04_t_s4_m2, sk_obj(&S4_TAB, 2, 5), p_c04::<S4>(true));
hc!(c04_t_s3_m2, sk_obj(&S3_TAB, 2, 5), p_c04::<S3>(true));
hc!(c04_t_s5_m2, sk_obj(&S5_TAB, 2, 4), p_c04::<S5>(true));
hc!(c04_t_s6_m2, sk_obj(&S6_TAB, 2, 3), p_c04::<S6>(true));
hc!(c04_t_e3_leaf, sk_leaf_tab(&E3_TAB), p_c04::<E3>(false));

// ---- C15: member order
hc!(c15_t_e1_taglast2_model, sk_enum_last(&E1_TAB, 0, &[1, 2, 3, 7], 2, &[4, 5, 6]), p_cat::<E1>(true, true));
hc!(c15_t_e2_taglast2_model, sk_enum_last(&E2_TAB, 0, &[1, 2, 6], 2, &[3, 4, 5]), p_cat::<E2>(true, true));

// ---- C12: adversarial shapes (duplicate keys incl. the tag twice), free script
hc!(c12_q_s1_dup_m2, sk_obj_dup(&S1_TAB, 2, 7), p_c01::<S1>(true));
hc!(c12_t_s4_dup_m3, sk_obj_dup(&S4_TAB, 3, 5), p_c01::<S4>(true));
hc!(c12_t_s2_dup_m3, sk_obj_dup(&S2_TAB, 3, 6), p_c01::<S2>(true));
hc!(c12_t_s3_empty, sk_obj(&S3_TAB, 0, 5), p_c01::<S3>(false));

// ---- one-member skeletons (quick tier): every key of the table x every leaf, the other
//      fields absent -> missing / default / unknown-key interplay with >= 2 reports
hc!(c02_q_s1_m1, sk_obj(&S1_TAB, 1, 7), p_cat::<S1>(false, true));
hc!(c02_q_s2_m1, sk_obj(&S2_TAB, 1, 6), p_cat::<S2>(false, true));
hc!(c02_q_s3_m1, sk_obj(&S3_TAB, 1, 5), p_cat::<S3>(false, true));
hc!(c02_q_s4_m1, sk_obj(&S4_TAB, 1, 5), p_cat::<S4>(false, true));
hc!(c02_q_s5_m1, sk_obj(&S5_TAB, 1, 4), p_cat::<S5>(false, true));
hc!(c02_q_s6_m1, sk_obj(&S6_TAB, 1, 3), p_cat::<S6>(true, true));
hc!(c01_q_s1_m1, sk_obj(&S1_TAB, 1, 7), p_c01::<S1>(false));
hc!(c01_q_s3_m1, sk_obj(&S3_TAB, 1, 5), p_c01::<S3>(false));
hc!(c01_q_s4_m1, sk_obj(&S4_TAB, 1, 5), p_c01::<S4>(false));
hc!(c01_q_s5_m1, sk_obj(&S5_TAB, 1, 4), p_c01::<S5>(false));
hc!(c03_q_s1_m1, sk_obj(&S1_TAB, 1, 7), p_c03::<S1>(true));
hc!(c03_q_s3_m1, sk_obj(&S3_TAB, 1, 5), p_c03::<S3>(true));
hc!(c03_q_s4_m1, sk_obj(&S4_TAB, 1, 5), p_c03::<S4>(true));
hc!(c04_q_s1_m1, sk_obj(&S1_TAB, 1, 7), p_c04::<S1>(true));
hc!(c04_q_s3_m1, sk_obj(&S3_TAB, 1, 5), p_c04::<S3>(true));
hc!(c04_q_s4_m1, sk_obj(&S4_TAB, 1, 5), p_c04::<S4>(true));
hc!(c15_q_s6_m2, sk_obj(&S6_TAB, 2, 3), p_c15::<S6>(2));
hc!(c15_q_e0_taglast_model, sk_enum_last(&E0_TAB, 0, &[1, 2, 3], 1, &[3, 1]), p_cat::<E0>(true, false));
hc!(c15_q_e0_tag1_rev, sk_enum(&E0_TAB, true, 0, &[1, 2, 3], 1, &[3, 1]), p_c15::<E0>(0));
hc!(c15_q_e1_taglast_model, sk_enum_last(&E1_TAB, 0, &[1, 2, 3, 7], 1, &[4, 5, 6]), p_cat::<E1>(true, true));
hc!(c02_q_e0_tag1, sk_enum(&E0_TAB, true, 0, &[1, 2, 3], 1, &[3, 1]), p_cat::<E0>(true, false));
hc!(c12_q_e0_tagtwice, sk_enum(&E0_TAB, true, 0, &[1, 2, 3], 1, &[0, 3]), p_c01::<E0>(true));

// ---- tagged enums, thorough: tag first / last with two further members (a symbolic tag
//      position - sk_obj over an enum table - does not finish within 40 min: outside the bound)
hc!(c01_t_e1_tag2, sk_enum(&E1_TAB, true, 0, &[1, 2, 3, 7], 2, &[4, 5, 6]), p_c01::<E1>(true));
hc!(c01_t_e2_tag2, sk_enum(&E2_TAB, true, 0, &[1, 2, 6], 2, &[3, 4, 5]), p_c01::<E2>(true));
hc!(c02_t_e1_taglast2, sk_enum_last(&E1_TAB, 0, &[1, 2, 3, 7], 2, &[4, 5, 6]), p_cat::<E1>(true, true));
hc!(c03_t_e2_tag1, sk_enum(&E2_TAB, true, 0, &[1, 2, 6], 1, &[3, 4, 5]), p_c03::<E2>(true));
hc!(c04_t_e1_tag2, sk_enum(&E1_TAB, true, 0, &[1, 2, 3, 7], 2, &[4, 5, 6]), p_c04::<E1>(true));
hc!(c04_t_e2_tag2, sk_enum(&E2_TAB, true, 0, &[1, 2, 6], 2, &[3, 4, 5]), p_c04::<E2>(true));
hc!(c12_t_e1_tagtwice2, sk_enum(&E1_TAB, true, 0, &[1, 2, 3, 7], 2, &[0, 4, 5]), p_c01::<E1>(true));
hc!(c12_t_e1_notag, sk_enum(&E1_TAB, false, 0, &[1], 2, &[4, 5, 1]), p_c01::<E1>(false));

// ---- two members with per-member key sets (quick): an earlier entry (any field / unknown
//      key) followed by the entry of the field with the user function, and the reverse
hc!(c01_q_s4_pre_v, sk_obj_sets(&S4_TAB, &[&[3, 1, 4], &[0]]), p_c01::<S4>(true));
hc!(c02_q_s4_pre_v, sk_obj_sets(&S4_TAB, &[&[3, 1, 4], &[0]]), p_cat::<S4>(true, true));
hc!(c01_q_s3_unk_pre, sk_obj_sets(&S3_TAB, &[&[0, 1, 3], &[3, 4]]), p_c01::<S3>(false));
hc!(c02_q_s3_unk_pre, sk_obj_sets(&S3_TAB, &[&[0, 1, 3], &[3, 4]]), p_cat::<S3>(false, true));
hc!(c03_q_s4_pre_v, sk_obj_sets(&S4_TAB, &[&[3, 1], &[0]]), p_c03::<S4>(true));
hc!(c04_q_s5_pre_v, sk_obj_sets(&S5_TAB, &[&[1, 2], &[0]]), p_c04::<S5>(true));
hc!(c01_q_s5_pre_v, sk_obj_sets(&S5_TAB, &[&[1, 2], &[0]]), p_c01::<S5>(false));

// ---- C15 thorough for structs: two members over per-member key sets, symbolic permutation
//      (the fully symbolic two-member two-run harnesses need > 24 GB)
hc!(c15_t_s2_sets, sk_obj_sets(&S2_TAB, &[&[1], &[2, 3, 0]]), p_c15::<S2>(2));
hc!(c15_t_s4_sets, sk_obj_sets(&S4_TAB, &[&[3, 1], &[0, 2]]), p_c15::<S4>(2));
// ---- nesting (locations of depth 2 and 3): struct in struct, Vec field
hc!(c04_q_n1_nested, sk_n1(), p_c04::<N1>(true));
hc!(c02_t_n1_nested, sk_n1(), p_cat::<N1>(true, true));
hc!(c01_t_n1_nested, sk_n1(), p_c01::<N1>(true));
