//! Skeleton builders and generic property bodies shared by the harness families.
//! Shape concrete per harness, contents symbolic (DESIGN lesson 1).
use crate::catalogue::*;
use crate::model::*;
use crate::rec::*;
use crate::vsrc::*;
use deserr::{deserialize, Deserr};

pub const STD_TAB: [&str; 2] = ["a", "bb"];

// ------------------------------------------------------------------ skeletons
// node 0 is always the root.

/// root = one symbolic leaf
#[cfg(kani)]
pub fn sk_leaf() {
    set_tab(&STD_TAB);
    set_node(0, any_leaf(2));
}

/// root = one leaf of the given (concrete) kind with symbolic payload
#[cfg(kani)]
pub fn sk_leaf_k(kind: u8) {
    set_tab(&STD_TAB);
    let mut n = any_leaf(2);
    n.kind = kind;
    set_node(0, n);
}

/// root = sequence of `n` symbolic leaves (nodes 1..=n)
#[cfg(kani)]
pub fn sk_seq(n: usize) {
    set_tab(&STD_TAB);
    let kids: [u8; 4] = [1, 2, 3, 4];
    set_node(0, seq_node(&kids[..n]));
    let mut i = 0;
    while i < n {
        set_node(1 + i, any_leaf(2));
        i += 1;
    }
}

/// root = sequence of two sequences of `m` leaves each
#[cfg(kani)]
pub fn sk_seq_seq(n: usize, m: usize) {
    set_tab(&STD_TAB);
    let kids: [u8; 4] = [1, 2, 3, 4];
    set_node(0, seq_node(&kids[..n]));
    let mut next = 1 + n;
    let mut i = 0;
    while i < n {
        let mut ks = [0u8; 4];
        let mut j = 0;
        while j < m {
            ks[j] = next as u8;
            set_node(next, any_leaf(2));
            next += 1;
            j += 1;
        }
        set_node(1 + i, seq_node(&ks[..m]));
        i += 1;
    }
}

/// root = sequence [leaf, sequence of m leaves]: a container next to a scalar
#[cfg(kani)]
pub fn sk_seq_mixed(m: usize) {
    set_tab(&STD_TAB);
    set_node(0, seq_node(&[1, 2]));
    set_node(1, any_leaf(2));
    let ks: [u8; 4] = [3, 4, 5, 6];
    set_node(2, seq_node(&ks[..m]));
    let mut j = 0;
    while j < m {
        set_node(3 + j, any_leaf(2));
        j += 1;
    }
}

/// root = map of `n` members with symbolic keys (ids < nkeys) and symbolic leaf values
#[cfg(kani)]
pub fn sk_map(n: usize, nkeys: u8, distinct: bool) {
    set_tab(&STD_TAB);
    let kids: [u8; 4] = [1, 2, 3, 4];
    let keys: [u8; 4] = [any_keyid(nkeys), any_keyid(nkeys), any_keyid(nkeys), any_keyid(nkeys)];
    if distinct {
        let mut i = 0;
        while i < n {
            let mut j = i + 1;
            while j < n {
                kani::assume(keys[i] != keys[j]);
                j += 1;
            }
            i += 1;
        }
    }
    let km = [((1u32 << nkeys) - 1) as u16; 4];
    set_node(0, map_node_m(&kids[..n], &keys[..n], &km[..n]));
    let mut i = 0;
    while i < n {
        set_node(1 + i, any_leaf(2));
        i += 1;
    }
}

// ------------------------------------------------------------------ property bodies

/// C01 (and C12: no panic, no arithmetic / bounds / pointer failure): free answer script.
#[cfg(kani)]
pub fn p_c01<T: Deserr<Rec<0>>>(ok_reachable: bool) {
    reset();
    set_script(any_script());
    let r = deserialize::<T, SV, Rec<0>>(SV(0));
    post_c01(&r);
    kani::cover!(!ok_reachable || r.is_ok(), "Ok reached");
    kani::cover!(r.is_err(), "Err reached");
    core::mem::forget(r);
}

/// C04: free script, monitors inside the error type.
#[cfg(kani)]
pub fn p_c04<T: Deserr<Rec<{ M_LOG | M_C04 }>>>(two: bool) {
    reset();
    set_script(any_script());
    let r = deserialize::<T, SV, Rec<{ M_LOG | M_C04 }>>(SV(0));
    kani::cover!(r.is_err(), "Err reached");
    kani::cover!(!two || nrep() >= 2, "two reports reached");
    core::mem::forget(r);
}

/// C02 + C06: keep-going script; reports = reference model; Ok value = payload.
#[cfg(kani)]
pub fn p_c02<T: Deserr<Rec<M_LOG>> + Model>(ok_reachable: bool, two: bool) {
    reset();
    all_continue();
    let r = deserialize::<T, SV, Rec<M_LOG>>(SV(0));
    let mut exp = Exp::new();
    T::expect(0, &LOC0, &mut exp);
    post_c02(&exp);
    match &r {
        Ok(v) => {
            assert!(exp.n == 0, "C02: Ok although the payload contains a fault");
            assert!(v.matches(0), "C06: the value produced is not the payload's (order, arity, None-iff-null)");
        }
        Err(e) => {
            assert!(exp.n > 0, "C02: Err although the payload contains no fault");
            assert!(e.mask == all_reports_mask(), "C02: the final error does not hold exactly one report for each independent fault");
        }
    }
    kani::cover!(!ok_reachable || r.is_ok(), "Ok reached");
    kani::cover!(r.is_err(), "Err reached");
    kani::cover!(!two || nrep() >= 2, "two reports reached");
    core::mem::forget(r);
}

/// C06 under a free script: whenever the call succeeds the value is the payload's.
#[cfg(kani)]
pub fn p_c06<T: Deserr<Rec<0>> + Model>() {
    reset();
    set_script(any_script());
    let r = deserialize::<T, SV, Rec<0>>(SV(0));
    if let Ok(v) = &r {
        assert!(v.matches(0), "C06: the value produced is not the payload's (order, arity, None-iff-null)");
    }
    kani::cover!(r.is_ok(), "Ok reached");
    core::mem::forget(r);
}

/// C03: script Continue^k Break^inf (k symbolic), then the keep-going run of the same
/// payload: everything before the stop is identical.
#[cfg(kani)]
pub fn p_c03<T: Deserr<Rec<{ M_LOG | M_C03 }>>>(multi: bool) {
    reset();
    let (s, k) = switch_script();
    set_script(s);
    let r = deserialize::<T, SV, Rec<{ M_LOG | M_C03 }>>(SV(0));
    let broke = unsafe { BROKE };
    let nb = nrep();
    let mut logb = [REP0; MAXREP];
    let mut i = 0;
    while i < nb {
        logb[i] = rep(i);
        i += 1;
    }
    if broke {
        assert!(unsafe { EXAMINED == EXAM_AT_BREAK }, "C03: the payload was examined further after a stop answer");
        assert!(unsafe { NREP == NREP_AT_BREAK }, "C03: a new report was made after a stop answer");
        match &r {
            Ok(_) => assert!(false, "C03: Ok after a stop answer"),
            Err(e) => assert!(e.mask == all_reports_mask(), "C03: the error returned after a stop does not hold every report made before it"),
        }
    }
    let ndec_b = unsafe { NDEC };
    core::mem::forget(r);
    // keep-going run on the same payload
    reset();
    all_continue();
    let r2 = deserialize::<T, SV, Rec<{ M_LOG | M_C03 }>>(SV(0));
    assert!(nrep() >= nb, "C03: the stopped run made a report the keep-going run does not make");
    let mut i = 0;
    while i < nb {
        assert!(rep_matches(&logb[i], &rep(i)), "C03: what happened before the stop differs from the keep-going run");
        i += 1;
    }
    if !broke {
        assert!(unsafe { NDEC } == ndec_b, "C03: same answers, different number of decisions");
    }
    kani::cover!(broke && k == 0, "stopped at the first decision");
    kani::cover!(!multi || (broke && k >= 1), "stopped after at least one continue");
    kani::cover!(!broke, "never stopped");
    core::mem::forget(r2);
}

// ------------------------------------------------------------------ catalogue

/// root = object of `n` members, keys symbolic over the first `nkeys` table entries
/// (pairwise distinct), values symbolic leaves; user-function outcomes symbolic.
#[cfg(kani)]
pub fn sk_obj(tab: &[&'static str], n: usize, nkeys: u8) {
    set_tab(tab);
    any_outcomes();
    let kids: [u8; 4] = [1, 2, 3, 4];
    let keys: [u8; 4] = [any_keyid(nkeys), any_keyid(nkeys), any_keyid(nkeys), any_keyid(nkeys)];
    let mut i = 0;
    while i < n {
        let mut j = i + 1;
        while j < n {
            kani::assume(keys[i] != keys[j]);
            j += 1;
        }
        i += 1;
    }
    let km = [((1u32 << nkeys) - 1) as u16; 4];
    set_node(0, map_node_m(&kids[..n], &keys[..n], &km[..n]));
    let mut i = 0;
    while i < n {
        set_node(1 + i, any_leaf(tab.len() as u8));
        i += 1;
    }
}

/// root = one symbolic leaf whose string ranges over the whole table
#[cfg(kani)]
pub fn sk_leaf_tab(tab: &[&'static str]) {
    set_tab(tab);
    any_outcomes();
    set_node(0, any_leaf(tab.len() as u8));
}

/// C02 / C07 / C08 / C09 / C10 / C11 for catalogue types: keep-going run against the
/// reference model (reports attributed per property), value checks, call logs.
#[cfg(kani)]
pub fn p_cat<T: Deserr<Rec<M_LOG>> + Cat>(ok_reachable: bool, two: bool) {
    reset();
    all_continue();
    let r = deserialize::<T, SV, Rec<M_LOG>>(SV(0));
    let mut exp = Exp::new();
    T::expect(0, &LOC0, &mut exp);
    // the value first: a field filled from the wrong entry is C07's, whatever it does to the reports
    if let Ok(v) = &r {
        v.check_value(0);
    }
    post_tagged(&exp);
    match &r {
        Ok(_) => {
            assert!(exp.n == 0, "C02: Ok although the payload contains a fault");
        }
        Err(e) => {
            assert!(exp.n > 0, "C02: Err although the payload contains no fault");
            assert!(e.mask == all_reports_mask(), "C02: the final error does not hold exactly one report for each independent fault");
        }
    }
    T::check_calls(0, r.is_ok());
    kani::cover!(!ok_reachable || r.is_ok(), "Ok reached");
    kani::cover!(r.is_err(), "Err reached");
    kani::cover!(!two || nrep() >= 2, "two reports reached");
    core::mem::forget(r);
}

// ------------------------------------------------------------------ C15

/// Permute the members of the root object by a symbolic permutation.
#[cfg(kani)]
pub fn permute_root(n: usize) {
    let root = node(0);
    let p: u8 = kani::any();
    let perm: [usize; 3] = if n == 2 {
        kani::assume(p < 2);
        if p == 0 { [0, 1, 2] } else { [1, 0, 2] }
    } else {
        kani::assume(p < 6);
        match p {
            0 => [0, 1, 2],
            1 => [0, 2, 1],
            2 => [1, 0, 2],
            3 => [1, 2, 0],
            4 => [2, 0, 1],
            _ => [2, 1, 0],
        }
    };
    let mut m = root;
    let mut i = 0;
    while i < n {
        m.kids[i] = root.kids[perm[i]];
        m.keys[i] = root.keys[perm[i]];
        // the candidate sets must stay concrete: a symbolic permutation gives every position the union
        m.kmask[i] = root.kmask[0] | root.kmask[1] | root.kmask[2];
        i += 1;
    }
    set_node(0, m);
}

/// Reverse the members of the root object (a CONCRETE permutation: positions stay concrete
/// in both runs, which keeps tagged enums affordable - a symbolic tag position is not).
#[cfg(kani)]
pub fn reverse_root() {
    let root = node(0);
    let n = root.len as usize;
    let mut m = root;
    let mut i = 0;
    while i < n {
        m.kids[i] = root.kids[n - 1 - i];
        m.keys[i] = root.keys[n - 1 - i];
        m.kmask[i] = root.kmask[n - 1 - i];
        i += 1;
    }
    set_node(0, m);
}

/// C15: two keep-going runs, the second over the permuted object: same value, same
/// multiset of reports.  `n == 0`: the concrete reversal instead of a symbolic permutation.
#[cfg(kani)]
pub fn p_c15<T: Deserr<Rec<M_LOG>> + PartialEq>(n: usize) {
    reset();
    all_continue();
    let r1 = deserialize::<T, SV, Rec<M_LOG>>(SV(0));
    let n1 = nrep();
    let mut log1 = [REP0; MAXREP];
    let mut i = 0;
    while i < n1 {
        log1[i] = rep(i);
        i += 1;
    }
    let first_before = node(0).kids[0];
    if n == 0 {
        reverse_root();
    } else {
        permute_root(n);
    }
    kani::cover!(node(0).kids[0] != first_before, "a non-identity permutation");
    reset();
    all_continue();
    let r2 = deserialize::<T, SV, Rec<M_LOG>>(SV(0));
    match (&r1, &r2) {
        (Ok(a), Ok(b)) => assert!(a == b, "C15: the value depends on the order of the object's members"),
        (Err(_), Err(_)) => {
            assert!(n1 == nrep(), "C15: the number of reports depends on the order of the object's members");
            let mut i = 0;
            while i < n1 {
                let mut c1 = 0;
                let mut j = 0;
                while j < n1 {
                    if rep_matches(&log1[j], &log1[i]) {
                        c1 += 1;
                    }
                    j += 1;
                }
                assert!(count_in_log(&log1[i]) == c1, "C15: the set of reports depends on the order of the object's members");
                i += 1;
            }
        }
        _ => assert!(false, "C15: success depends on the order of the object's members"),
    }
    kani::cover!(r1.is_ok(), "Ok reached");
    kani::cover!(r1.is_err(), "Err reached");
    core::mem::forget(r1);
    core::mem::forget(r2);
}

/// like `sk_obj` but duplicate keys are allowed (C12)
#[cfg(kani)]
pub fn sk_obj_dup(tab: &[&'static str], n: usize, nkeys: u8) {
    set_tab(tab);
    any_outcomes();
    let kids: [u8; 4] = [1, 2, 3, 4];
    let keys: [u8; 4] = [any_keyid(nkeys), any_keyid(nkeys), any_keyid(nkeys), any_keyid(nkeys)];
    let km = [((1u32 << nkeys) - 1) as u16; 4];
    set_node(0, map_node_m(&kids[..n], &keys[..n], &km[..n]));
    let mut i = 0;
    while i < n {
        set_node(1 + i, any_leaf(tab.len() as u8));
        i += 1;
    }
    kani::cover!(n >= 2 && keys[0] == keys[1], "duplicate key");
}

/// symbolic element of a concrete candidate set
#[cfg(kani)]
pub fn any_of(set: &[u8]) -> u8 {
    let i: usize = kani::any();
    kani::assume(i < set.len());
    set[i]
}

/// Tagged-enum skeleton: member 0 is the tag (`tagkey`, concrete position) unless `with_tag`
/// is false; its value is a symbolic leaf whose string ranges over `tagvals`; the other
/// `n` members have symbolic pairwise distinct keys over `keys` and symbolic leaf values.
#[cfg(kani)]
pub fn sk_enum(tab: &[&'static str], with_tag: bool, tagkey: u8, tagvals: &[u8], n: usize, keys: &[u8]) {
    set_tab(tab);
    any_outcomes();
    let mut kids = [0u8; 4];
    let mut ks = [0u8; 4];
    let mut kms = [0u16; 4];
    let mut m = 0usize;
    if with_tag {
        kids[0] = 1;
        ks[0] = tagkey;
        kms[0] = 1 << tagkey;
        let mut t = any_leaf(1);
        t.s = any_of(tagvals);
        t.smask = set_mask(tagvals);
        set_node(1, t);
        m = 1;
    }
    let mut i = 0;
    while i < n {
        kids[m] = (m + 1) as u8;
        ks[m] = any_of(keys);
        kms[m] = set_mask(keys);
        let mut j = if with_tag { 1 } else { 0 };
        while j < m {
            kani::assume(ks[j] != ks[m]);
            j += 1;
        }
        let mut v = any_leaf(1);
        v.s = any_of(keys);
        v.smask = set_mask(keys);
        set_node(m + 1, v);
        m += 1;
        i += 1;
    }
    set_node(0, map_node_m(&kids[..m], &ks[..m], &kms[..m]));
}

/// like `sk_enum` with the tag member LAST (C15: the outcome must equal the order-independent
/// reference model whatever the position of the tag)
#[cfg(kani)]
pub fn sk_enum_last(tab: &[&'static str], tagkey: u8, tagvals: &[u8], n: usize, keys: &[u8]) {
    sk_enum(tab, true, tagkey, tagvals, n, keys);
    reverse_root();
}

/// root = object whose member i has a symbolic key over its OWN concrete candidate set
/// `sets[i]` (pairwise distinct keys), symbolic leaf values whose string ranges over the
/// whole table.  Cheaper than `sk_obj` and able to pin scenarios such as "a faulty entry
/// before the entry of a try_from field".
#[cfg(kani)]
pub fn sk_obj_sets(tab: &[&'static str], sets: &[&[u8]]) {
    set_tab(tab);
    any_outcomes();
    let n = sets.len();
    let kids: [u8; 4] = [1, 2, 3, 4];
    let mut ks = [0u8; 4];
    let mut kms = [0u16; 4];
    let mut i = 0;
    while i < n {
        ks[i] = any_of(sets[i]);
        kms[i] = set_mask(sets[i]);
        let mut j = 0;
        while j < i {
            kani::assume(ks[j] != ks[i]);
            j += 1;
        }
        set_node(1 + i, any_leaf(tab.len() as u8));
        i += 1;
    }
    set_node(0, map_node_m(&kids[..n], &ks[..n], &kms[..n]));
}

/// N1 { "in": { p, q? }, "l": [leaf, leaf] } with symbolic inner keys and leaves:
/// root object {in: node1, l: node2}; node1 = object of one member with a symbolic key over
/// {p, q, zz}; node2 = sequence of two leaves
#[cfg(kani)]
pub fn sk_n1() {
    set_tab(&N1_TAB);
    any_outcomes();
    set_node(0, map_node_m(&[1, 2], &[0, 1], &[1, 2]));
    let k = any_of(&[2, 3, 4]);
    set_node(1, map_node_m(&[3], &[k], &[set_mask(&[2, 3, 4])]));
    set_node(2, seq_node(&[4, 5]));
    set_node(3, any_leaf(1));
    set_node(4, any_leaf(1));
    set_node(5, any_leaf(1));
}
