//! Skeleton builders and generic property bodies shared by the harness families.
//! Shape concrete per harness, contents symbolic (DESIGN lesson 1).
use crate::model::*;
use crate::rec::*;
use crate::vsrc::*;
use deserr::{deserialize, Deserr};

pub const STD_TAB: [&str; NSTR] = ["a", "bb", "ccc", "dddd", "ee\u{e9}", "Zz"];

// ------------------------------------------------------------------ skeletons
// node 0 is always the root.

/// root = one symbolic leaf
#[cfg(kani)]
pub fn sk_leaf() {
    set_tab(STD_TAB);
    set_node(0, any_leaf(2));
}

/// root = sequence of `n` symbolic leaves (nodes 1..=n)
#[cfg(kani)]
pub fn sk_seq(n: usize) {
    set_tab(STD_TAB);
    let kids: [u8; 4] = [1, 2, 3, 4];
    set_node(0, seq_node(&kids[..n]));
    let mut i = 0;
    while i < n {
        set_node(1 + i, any_leaf(2));
        i += 1;
    }
}

/// root = sequence of two sequences of `m` leaves each
#[cfg(kani)]
pub fn sk_seq_seq(n: usize, m: usize) {
    set_tab(STD_TAB);
    let kids: [u8; 4] = [1, 2, 3, 4];
    set_node(0, seq_node(&kids[..n]));
    let mut next = 1 + n;
    let mut i = 0;
    while i < n {
        let mut ks = [0u8; 4];
        let mut j = 0;
        while j < m {
            ks[j] = next as u8;
            set_node(next, any_leaf(2));
            next += 1;
            j += 1;
        }
        set_node(1 + i, seq_node(&ks[..m]));
        i += 1;
    }
}

/// root = sequence [leaf, sequence of m leaves]: a container next to a scalar
#[cfg(kani)]
pub fn sk_seq_mixed(m: usize) {
    set_tab(STD_TAB);
    set_node(0, seq_node(&[1, 2]));
    set_node(1, any_leaf(2));
    let ks: [u8; 4] = [3, 4, 5, 6];
    set_node(2, seq_node(&ks[..m]));
    let mut j = 0;
    while j < m {
        set_node(3 + j, any_leaf(2));
        j += 1;
    }
}

/// root = map of `n` members with symbolic keys (ids < nkeys) and symbolic leaf values
#[cfg(kani)]
pub fn sk_map(n: usize, nkeys: u8, distinct: bool) {
    set_tab(STD_TAB);
    let kids: [u8; 4] = [1, 2, 3, 4];
    let keys: [u8; 4] = [any_keyid(nkeys), any_keyid(nkeys), any_keyid(nkeys), any_keyid(nkeys)];
    if distinct {
        let mut i = 0;
        while i < n {
            let mut j = i + 1;
            while j < n {
                kani::assume(keys[i] != keys[j]);
                j += 1;
            }
            i += 1;
        }
    }
    set_node(0, map_node(&kids[..n], &keys[..n]));
    let mut i = 0;
    while i < n {
        set_node(1 + i, any_leaf(2));
        i += 1;
    }
}

// ------------------------------------------------------------------ property bodies

/// C01 (and C12: no panic, no arithmetic / bounds / pointer failure): free answer script.
#[cfg(kani)]
pub fn p_c01<T: Deserr<Rec<0>>>(ok_reachable: bool) {
    reset();
    set_script(any_script());
    let r = deserialize::<T, SV, Rec<0>>(SV(0));
    post_c01(&r);
    if ok_reachable {
        kani::cover!(r.is_ok(), "Ok reached");
    }
    kani::cover!(r.is_err(), "Err reached");
    core::mem::forget(r);
}

/// C04: free script, monitors inside the error type.
#[cfg(kani)]
pub fn p_c04<T: Deserr<Rec<{ M_LOG | M_C04 }>>>(two: bool) {
    reset();
    set_script(any_script());
    let r = deserialize::<T, SV, Rec<{ M_LOG | M_C04 }>>(SV(0));
    kani::cover!(r.is_err(), "Err reached");
    if two {
        kani::cover!(nrep() >= 2, "two reports reached");
    }
    core::mem::forget(r);
}

/// C02 + C06: keep-going script; reports = reference model; Ok value = payload.
#[cfg(kani)]
pub fn p_c02<T: Deserr<Rec<M_LOG>> + Model>(ok_reachable: bool, two: bool) {
    reset();
    all_continue();
    let r = deserialize::<T, SV, Rec<M_LOG>>(SV(0));
    let mut exp = Exp::new();
    T::expect(0, &LOC0, &mut exp);
    post_c02(&exp);
    match &r {
        Ok(v) => {
            assert!(exp.n == 0, "C02: Ok although the payload contains a fault");
            assert!(v.matches(0), "C06: the value produced is not the payload's (order, arity, None-iff-null)");
        }
        Err(_) => assert!(exp.n > 0, "C02: Err although the payload contains no fault"),
    }
    if ok_reachable {
        kani::cover!(r.is_ok(), "Ok reached");
    }
    kani::cover!(r.is_err(), "Err reached");
    if two {
        kani::cover!(nrep() >= 2, "two reports reached");
    }
    core::mem::forget(r);
}

/// C06 under a free script: whenever the call succeeds the value is the payload's.
#[cfg(kani)]
pub fn p_c06<T: Deserr<Rec<0>> + Model>() {
    reset();
    set_script(any_script());
    let r = deserialize::<T, SV, Rec<0>>(SV(0));
    if let Ok(v) = &r {
        assert!(v.matches(0), "C06: the value produced is not the payload's (order, arity, None-iff-null)");
    }
    kani::cover!(r.is_ok(), "Ok reached");
    core::mem::forget(r);
}

/// C03: script Continue^k Break^inf (k symbolic), then the keep-going run of the same
/// payload: everything before the stop is identical.
#[cfg(kani)]
pub fn p_c03<T: Deserr<Rec<{ M_LOG | M_C03 }>>>(multi: bool) {
    reset();
    let (s, k) = switch_script();
    set_script(s);
    let r = deserialize::<T, SV, Rec<{ M_LOG | M_C03 }>>(SV(0));
    let broke = unsafe { BROKE };
    let nb = nrep();
    let mut logb = [REP0; MAXREP];
    let mut i = 0;
    while i < nb {
        logb[i] = rep(i);
        i += 1;
    }
    if broke {
        assert!(unsafe { EXAMINED == EXAM_AT_BREAK }, "C03: the payload was examined further after a stop answer");
        assert!(unsafe { NREP == NREP_AT_BREAK }, "C03: a new report was made after a stop answer");
        match &r {
            Ok(_) => assert!(false, "C03: Ok after a stop answer"),
            Err(e) => assert!(e.mask == all_reports_mask(), "C03: the error returned after a stop does not hold every report made before it"),
        }
    }
    let ndec_b = unsafe { NDEC };
    core::mem::forget(r);
    // keep-going run on the same payload
    reset();
    all_continue();
    let r2 = deserialize::<T, SV, Rec<{ M_LOG | M_C03 }>>(SV(0));
    assert!(nrep() >= nb, "C03: the stopped run made a report the keep-going run does not make");
    let mut i = 0;
    while i < nb {
        assert!(rep_matches(&logb[i], &rep(i)), "C03: what happened before the stop differs from the keep-going run");
        i += 1;
    }
    if !broke {
        assert!(unsafe { NDEC } == ndec_b, "C03: same answers, different number of decisions");
    }
    kani::cover!(broke && k == 0, "stopped at the first decision");
    if multi {
        kani::cover!(broke && k >= 1, "stopped after at least one continue");
    }
    kani::cover!(!broke, "never stopped");
    core::mem::forget(r2);
}
