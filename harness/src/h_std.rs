//! std scalars / containers over the arena value source: C01, C02, C03, C04, C06, C12.
//! Naming: cNN_[q|t]_<target>_<skeleton>.
use crate::props::*;
use crate::stubs::fmt_stub;

macro_rules! hs {
    ($name:ident, $sk:ident($($a:expr),*), $p:ident::<$t:ty>($($b:expr),*)) => {
        #[cfg(kani)]
        #[kani::proof]
        #[kani::unwind(12)]
        #[kani::stub(alloc::fmt::format, fmt_stub)]
        pub fn $name() {
            $sk($($a),*);
            $p::<$t>($($b),*);
        }
    };
}

// ---- C01: free script, masks only
hs!(c01_q_optu8_leaf, sk_leaf(), p_c01::<Option<u8>>(true));
hs!(c01_q_vecu8_leafbool, sk_leaf_k(crate::vsrc::K_BOOL), p_c01::<Vec<u8>>(false));
hs!(c01_q_vecu8_s2, sk_seq(2), p_c01::<Vec<u8>>(true));
hs!(c01_q_arr3_s3, sk_seq(3), p_c01::<[u8; 3]>(true));
hs!(c01_q_arr2_s3, sk_seq(3), p_c01::<[u8; 2]>(false));
hs!(c01_q_tup2_s2, sk_seq(2), p_c01::<(u8, bool)>(true));
hs!(c01_q_vecvec_s21, sk_seq_seq(2, 1), p_c01::<Vec<Vec<u8>>>(true));
hs!(c01_t_vecu8_s3, sk_seq(3), p_c01::<Vec<u8>>(true));
hs!(c01_t_vecoptbool_s2, sk_seq(2), p_c01::<Vec<Option<bool>>>(true));
hs!(c01_t_tup3_s3, sk_seq(3), p_c01::<(u8, bool, i8)>(true));
hs!(c01_t_tup3_s2, sk_seq(2), p_c01::<(u8, bool, i8)>(false));
hs!(c01_t_boxu8_leaf, sk_leaf(), p_c01::<Box<u8>>(true));
hs!(c01_t_vecvec_s22, sk_seq_seq(2, 2), p_c01::<Vec<Vec<u8>>>(true));
hs!(c01_t_vectup_s21, sk_seq_seq(2, 2), p_c01::<Vec<(u8, bool)>>(true));
hs!(c01_t_arrarr_s22, sk_seq_seq(2, 2), p_c01::<[[u8; 2]; 2]>(true));
hs!(c01_t_tupvec_mixed, sk_seq_mixed(2), p_c01::<(u8, Vec<u8>)>(true));

// ---- C02 + C06: keep-going, reference model
hs!(c02_q_vecu8_leafint, sk_leaf_k(crate::vsrc::K_INT), p_c02::<Vec<u8>>(false, false));
hs!(c02_q_arr3_leafnull, sk_leaf_k(crate::vsrc::K_NULL), p_c02::<[u8; 3]>(false, false));
hs!(c02_q_vecu8_s2, sk_seq(2), p_c02::<Vec<u8>>(true, true));
hs!(c02_q_arr3_s3, sk_seq(3), p_c02::<[u8; 3]>(true, true));
hs!(c02_q_arr2_s3, sk_seq(3), p_c02::<[u8; 2]>(false, false));
hs!(c02_q_tup2_s2, sk_seq(2), p_c02::<(u8, bool)>(true, true));
hs!(c02_q_vecoptbool_s2, sk_seq(2), p_c02::<Vec<Option<bool>>>(true, true));
hs!(c02_t_vecu8_s3, sk_seq(3), p_c02::<Vec<u8>>(true, true));
hs!(c02_t_tup3_s3, sk_seq(3), p_c02::<(u8, bool, i8)>(true, true));
hs!(c02_t_tup3_s2, sk_seq(2), p_c02::<(u8, bool, i8)>(false, false));
hs!(c02_t_tup2_s3, sk_seq(3), p_c02::<(u8, bool)>(false, false));
hs!(c02_t_vecvec_s21, sk_seq_seq(2, 1), p_c02::<Vec<Vec<u8>>>(true, true));
hs!(c02_t_vecvec_s22, sk_seq_seq(2, 2), p_c02::<Vec<Vec<u8>>>(true, true));
hs!(c02_t_vectup_s22, sk_seq_seq(2, 2), p_c02::<Vec<(u8, bool)>>(true, true));
hs!(c02_t_arrarr_s22, sk_seq_seq(2, 2), p_c02::<[[u8; 2]; 2]>(true, true));
hs!(c02_t_tupvec_mixed, sk_seq_mixed(2), p_c02::<(u8, Vec<u8>)>(true, true));
hs!(c02_t_optvec_s2, sk_seq(2), p_c02::<Option<Vec<u8>>>(true, true));
hs!(c02_t_boxopt_leaf, sk_leaf(), p_c02::<Box<Option<u8>>>(true, false));

// ---- C06 under a free script
hs!(c06_q_vecu8_s3, sk_seq(3), p_c06::<Vec<u8>>());
hs!(c06_q_arr3_s3, sk_seq(3), p_c06::<[u8; 3]>());
hs!(c06_q_tup3_s3, sk_seq(3), p_c06::<(u8, bool, i8)>());
hs!(c06_q_optu8_leaf, sk_leaf(), p_c06::<Option<u8>>());
hs!(c06_q_vecoptbool_s2, sk_seq(2), p_c06::<Vec<Option<bool>>>());
hs!(c06_t_vecvec_s22, sk_seq_seq(2, 2), p_c06::<Vec<Vec<u8>>>());
hs!(c06_t_tupvec_mixed, sk_seq_mixed(2), p_c06::<(u8, Vec<u8>)>());
hs!(c06_t_boxu8_leaf, sk_leaf(), p_c06::<Box<u8>>());

// ---- C03: Continue^k Break^inf + differential keep-going run
hs!(c03_q_vecu8_s2, sk_seq(2), p_c03::<Vec<u8>>(true));
hs!(c03_q_arr3_s3, sk_seq(3), p_c03::<[u8; 3]>(true));
hs!(c03_q_tup2_s2, sk_seq(2), p_c03::<(u8, bool)>(true));
hs!(c03_q_vecvec_s21, sk_seq_seq(2, 1), p_c03::<Vec<Vec<u8>>>(true));
hs!(c03_t_vecu8_s3, sk_seq(3), p_c03::<Vec<u8>>(true));
hs!(c03_t_tup3_s3, sk_seq(3), p_c03::<(u8, bool, i8)>(true));
hs!(c03_t_vecvec_s22, sk_seq_seq(2, 2), p_c03::<Vec<Vec<u8>>>(true));
hs!(c03_t_tupvec_mixed, sk_seq_mixed(2), p_c03::<(u8, Vec<u8>)>(true));
hs!(c03_t_optu8_leaf, sk_leaf(), p_c03::<Option<u8>>(false));

// ---- C04: locations and payloads of reports
hs!(c04_q_vecu8_s2, sk_seq(2), p_c04::<Vec<u8>>(true));
hs!(c04_q_arr3_s3, sk_seq(3), p_c04::<[u8; 3]>(true));
hs!(c04_q_arr2_s3, sk_seq(3), p_c04::<[u8; 2]>(false));
hs!(c04_q_tup2_s2, sk_seq(2), p_c04::<(u8, bool)>(true));
hs!(c04_q_vecvec_s21, sk_seq_seq(2, 1), p_c04::<Vec<Vec<u8>>>(true));
hs!(c04_t_vecu8_s3, sk_seq(3), p_c04::<Vec<u8>>(true));
hs!(c04_t_tup3_s3, sk_seq(3), p_c04::<(u8, bool, i8)>(true));
hs!(c04_t_vecvec_s22, sk_seq_seq(2, 2), p_c04::<Vec<Vec<u8>>>(true));
hs!(c04_t_vectup_s22, sk_seq_seq(2, 2), p_c04::<Vec<(u8, bool)>>(true));
hs!(c04_t_arrarr_s22, sk_seq_seq(2, 2), p_c04::<[[u8; 2]; 2]>(true));
hs!(c04_t_tupvec_mixed, sk_seq_mixed(2), p_c04::<(u8, Vec<u8>)>(true));
hs!(c04_t_vecoptbool_s2, sk_seq(2), p_c04::<Vec<Option<bool>>>(true));
