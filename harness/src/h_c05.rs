//! C05 — scalars accept exactly the representable values.
//! One harness per scalar target over ONE fully symbolic leaf (kind + full-width
//! payload).  Message text is outside the claim (`alloc::fmt::format` is stubbed).
use crate::rec::*;
use crate::stubs::fmt_stub;
use crate::vsrc::*;
use core::num::*;
use deserr::{deserialize, Deserr};

pub type R = Rec<M_LOG>;

const STRS: [&str; 6] = ["\u{e9}a", "a", "\u{e9}", "\u{20ac}", "\u{1f600}", "ab"];
/// the String target also gets the empty string
const STRS_E: [&str; 6] = ["", "a", "\u{e9}", "\u{20ac}", "\u{1f600}", "ab"];

#[cfg(kani)]
fn setup() -> Node {
    set_tab(&STRS);
    reset();
    set_script(any_script());
    let n = any_leaf(6);
    set_node(0, n);
    n
}

/// exactly one report, at the origin, of the given kind
fn one_report(kind: u8) -> Rep {
    assert!(nrep() == 1, "C05: a scalar failure must produce exactly one report");
    let r = rep(0);
    assert!(r.loc.depth == 0, "C05: a scalar's report must be located at the scalar");
    assert!(r.kind == kind, "C05: wrong kind of report (kind error vs domain error)");
    r
}

fn kind_error(n: &Node, acc: u16, acc_len: u16) {
    let r = one_report(R_KIND);
    assert!(r.acc == acc && r.acc2 == acc_len, "C05: kind error must list exactly the admissible kinds");
    assert!(r.d == n.kind, "C05: kind error must carry the received value");
}

const A_INT: u16 = 1 << K_INT;
const A_INTNEG: u16 = (1 << K_INT) | (1 << K_NEG);
const A_NUM: u16 = (1 << K_INT) | (1 << K_NEG) | (1 << K_FLOAT);

macro_rules! unsigned_harness {
    ($name:ident, $t:ty, $nz:expr, $dom:expr) => {
        #[cfg(kani)]
        #[kani::proof]
        #[kani::unwind(12)]
        #[kani::stub(alloc::fmt::format, fmt_stub)]
        pub fn $name() {
            let n = setup();
            let r: Result<$t, R> = deserialize::<$t, SV, R>(SV(0));
            post_c01(&r);
            let in_dom = n.kind == K_INT && (n.u as u128) <= (<$t>::MAX.get_() as u128) && (!$nz || n.u != 0);
            match &r {
                Ok(v) => {
                    assert!(in_dom, "C05: accepted a value outside the target's domain or of an inadmissible kind");
                    assert!(v.get_() as u128 == n.u as u128, "C05: result differs numerically from the input");
                }
                Err(_) => {
                    assert!(!in_dom, "C05: rejected a representable value");
                    if n.kind == K_INT {
                        one_report(R_UNEXP);
                    } else {
                        kind_error(&n, A_INT, 1);
                    }
                }
            }
            kani::cover!(r.is_ok(), "ok");
            kani::cover!(!$dom || (r.is_err() && n.kind == K_INT), "domain error");
            kani::cover!(r.is_err() && n.kind != K_INT, "kind error");
        }
    };
}

macro_rules! signed_harness {
    ($name:ident, $t:ty, $nz:expr, $dom:expr) => {
        #[cfg(kani)]
        #[kani::proof]
        #[kani::unwind(12)]
        #[kani::stub(alloc::fmt::format, fmt_stub)]
        pub fn $name() {
            const DOMINT: bool = $nz || <$t as MaxC>::MAXU < (u64::MAX as u128);
            let n = setup();
            let r: Result<$t, R> = deserialize::<$t, SV, R>(SV(0));
            post_c01(&r);
            let in_dom = (n.kind == K_INT && (n.u as u128) <= (<$t>::MAX.get_() as u128) && (!$nz || n.u != 0))
                || (n.kind == K_NEG
                    && (n.i as i128) >= (<$t>::MIN.get_() as i128)
                    && (n.i as i128) <= (<$t>::MAX.get_() as i128)
                    && (!$nz || n.i != 0));
            match &r {
                Ok(v) => {
                    assert!(in_dom, "C05: accepted a value outside the target's domain or of an inadmissible kind");
                    if n.kind == K_INT {
                        assert!(v.get_() as i128 == n.u as i128, "C05: result differs numerically from the input");
                    } else {
                        assert!(v.get_() as i128 == n.i as i128, "C05: result differs numerically from the input");
                    }
                }
                Err(_) => {
                    assert!(!in_dom, "C05: rejected a representable value");
                    if n.kind == K_INT || n.kind == K_NEG {
                        one_report(R_UNEXP);
                    } else {
                        kind_error(&n, A_INTNEG, 2);
                    }
                }
            }
            kani::cover!(r.is_ok() && n.kind == K_NEG, "ok negative");
            kani::cover!(r.is_ok() && n.kind == K_INT, "ok positive");
            kani::cover!(!$dom || (r.is_err() && n.kind == K_NEG), "domain error (too small)");
            kani::cover!(!DOMINT || (r.is_err() && n.kind == K_INT), "domain error (too large or zero)");
            kani::cover!(r.is_err() && n.kind > K_NEG, "kind error");
        }
    };
}

pub trait MaxC {
    const MAXU: u128;
}
macro_rules! maxc { ($($t:ty => $p:ty),*) => { $(impl MaxC for $t { const MAXU: u128 = <$p>::MAX as u128; })* } }
maxc!(i8 => i8, i16 => i16, i32 => i32, i64 => i64, i128 => i128, isize => isize, NonZeroI8 => i8, NonZeroI16 => i16, NonZeroI32 => i32, NonZeroI64 => i64, NonZeroI128 => i128, NonZeroIsize => isize);

/// uniform access to the numeric value of plain and NonZero integers
pub trait Get {
    type P;
    fn get_(self) -> Self::P;
}
macro_rules! get_plain { ($($t:ty),*) => { $(impl Get for $t { type P = $t; fn get_(self) -> $t { self } })* } }
macro_rules! get_nz { ($($t:ty => $p:ty),*) => { $(impl Get for $t { type P = $p; fn get_(self) -> $p { self.get() } })* } }
get_plain!(u8, u16, u32, u64, u128, usize, i8, i16, i32, i64, i128, isize);
get_nz!(NonZeroU8 => u8, NonZeroU16 => u16, NonZeroU32 => u32, NonZeroU64 => u64, NonZeroU128 => u128, NonZeroUsize => usize,
        NonZeroI8 => i8, NonZeroI16 => i16, NonZeroI32 => i32, NonZeroI64 => i64, NonZeroI128 => i128, NonZeroIsize => isize);

unsigned_harness!(c05_q_u8, u8, false, true);
unsigned_harness!(c05_q_u16, u16, false, true);
unsigned_harness!(c05_q_u32, u32, false, true);
unsigned_harness!(c05_q_u64, u64, false, false);
unsigned_harness!(c05_q_u128, u128, false, false);
unsigned_harness!(c05_q_usize, usize, false, false);
unsigned_harness!(c05_q_nzu8, NonZeroU8, true, true);
unsigned_harness!(c05_q_nzu16, NonZeroU16, true, true);
unsigned_harness!(c05_q_nzu32, NonZeroU32, true, true);
unsigned_harness!(c05_q_nzu64, NonZeroU64, true, true);
unsigned_harness!(c05_q_nzu128, NonZeroU128, true, true);
unsigned_harness!(c05_q_nzusize, NonZeroUsize, true, true);
signed_harness!(c05_q_i8, i8, false, true);
signed_harness!(c05_q_i16, i16, false, true);
signed_harness!(c05_q_i32, i32, false, true);
signed_harness!(c05_q_i64, i64, false, false);
signed_harness!(c05_q_i128, i128, false, false);
signed_harness!(c05_q_isize, isize, false, false);
signed_harness!(c05_q_nzi8, NonZeroI8, true, true);
signed_harness!(c05_q_nzi16, NonZeroI16, true, true);
signed_harness!(c05_q_nzi32, NonZeroI32, true, true);
signed_harness!(c05_q_nzi64, NonZeroI64, true, true);
signed_harness!(c05_q_nzi128, NonZeroI128, true, true);
signed_harness!(c05_q_nzisize, NonZeroIsize, true, true);

macro_rules! float_harness {
    ($name:ident, $t:ty) => {
        #[cfg(kani)]
        #[kani::proof]
        #[kani::unwind(12)]
        #[kani::stub(alloc::fmt::format, fmt_stub)]
        pub fn $name() {
            let n = setup();
            let r: Result<$t, R> = deserialize::<$t, SV, R>(SV(0));
            post_c01(&r);
            let adm = n.kind == K_INT || n.kind == K_NEG || n.kind == K_FLOAT;
            match &r {
                Ok(v) => {
                    assert!(adm, "C05: float target accepted an inadmissible kind");
                    let want: $t = if n.kind == K_INT {
                        n.u as $t
                    } else if n.kind == K_NEG {
                        n.i as $t
                    } else {
                        n.f as $t
                    };
                    assert!(v.to_bits() == want.to_bits() || (v.is_nan() && want.is_nan()), "C05: float result is not the IEEE conversion of the input");
                }
                Err(_) => {
                    assert!(!adm, "C05: float target rejected a number");
                    kind_error(&n, A_NUM, 3);
                }
            }
            kani::cover!(r.is_ok() && n.kind == K_FLOAT, "ok float");
            kani::cover!(r.is_ok() && n.kind == K_NEG, "ok negative integer");
            kani::cover!(r.is_err(), "kind error");
        }
    };
}
float_harness!(c05_q_f32, f32);
float_harness!(c05_q_f64, f64);

#[cfg(kani)]
#[kani::proof]
#[kani::unwind(12)]
#[kani::stub(alloc::fmt::format, fmt_stub)]
pub fn c05_q_bool() {
    let n = setup();
    let r: Result<bool, R> = deserialize::<bool, SV, R>(SV(0));
    post_c01(&r);
    match &r {
        Ok(v) => assert!(n.kind == K_BOOL && *v == n.b, "C05: bool"),
        Err(_) => {
            assert!(n.kind != K_BOOL, "C05: bool rejected a boolean");
            kind_error(&n, 1 << K_BOOL, 1);
        }
    }
    kani::cover!(r.is_ok(), "ok");
    kani::cover!(r.is_err(), "kind error");
}

#[cfg(kani)]
#[kani::proof]
#[kani::unwind(12)]
#[kani::stub(alloc::fmt::format, fmt_stub)]
pub fn c05_q_unit() {
    let n = setup();
    let r: Result<(), R> = deserialize::<(), SV, R>(SV(0));
    post_c01(&r);
    match &r {
        Ok(_) => assert!(n.kind == K_NULL, "C05: unit accepted a non-null"),
        Err(_) => {
            assert!(n.kind != K_NULL, "C05: unit rejected null");
            kind_error(&n, 1 << K_NULL, 1);
        }
    }
    kani::cover!(r.is_ok(), "ok");
    kani::cover!(r.is_err(), "kind error");
}

#[cfg(kani)]
#[kani::proof]
#[kani::unwind(12)]
#[kani::stub(alloc::fmt::format, fmt_stub)]
pub fn c05_q_string() {
    set_tab(&STRS_E);
    reset();
    set_script(any_script());
    let n = any_leaf(6);
    set_node(0, n);
    let r: Result<String, R> = deserialize::<String, SV, R>(SV(0));
    post_c01(&r);
    match &r {
        Ok(v) => {
            assert!(n.kind == K_STR, "C05: String accepted a non-string");
            assert!(ident(v) == n.s && v.len() == STRS_E[n.s as usize].len(), "C05: String result differs from the input");
        }
        Err(_) => {
            assert!(n.kind != K_STR, "C05: String rejected a string");
            kind_error(&n, 1 << K_STR, 1);
        }
    }
    kani::cover!(r.is_ok() && n.s == 4, "ok");
    kani::cover!(r.is_err(), "kind error");
    core::mem::forget(r);
}

#[cfg(kani)]
#[kani::proof]
#[kani::unwind(12)]
#[kani::stub(alloc::fmt::format, fmt_stub)]
#[kani::stub(core::str::count::count_chars, crate::stubs::count_chars_stub)]
pub fn c05_q_char() {
    let n = setup();
    let r: Result<char, R> = deserialize::<char, SV, R>(SV(0));
    post_c01(&r);
    let one = n.kind == K_STR && n.s >= 1 && n.s <= 4;
    match &r {
        Ok(v) => {
            assert!(one, "C05: char accepted something that is not a one-character string");
            let want = match n.s {
                1 => 'a',
                2 => '\u{e9}',
                3 => '\u{20ac}',
                _ => '\u{1f600}',
            };
            assert!(*v == want, "C05: char result differs from the input");
        }
        Err(_) => {
            assert!(!one, "C05: char rejected a one-character string");
            if n.kind == K_STR {
                one_report(R_UNEXP);
            } else {
                kind_error(&n, 1 << K_STR, 1);
            }
        }
    }
    kani::cover!(r.is_ok() && n.s == 4, "ok 4-byte char");
    kani::cover!(r.is_err() && n.kind == K_STR && n.s == 0, "two characters, the first one multi-byte");
    kani::cover!(r.is_err() && n.kind == K_STR && n.s == 5, "two characters");
    kani::cover!(r.is_err() && n.kind != K_STR, "kind error");
}


/// The empty string for `char`, given directly as a view (CBMC reports a spurious
/// deallocation failure when an empty String that went through the harness' string
/// table is dropped inside deserr - see DESIGN.md; the direct view does not trigger it).
#[cfg(kani)]
#[kani::proof]
#[kani::unwind(12)]
#[kani::stub(alloc::fmt::format, fmt_stub)]
pub fn c05_q_char_empty() {
    reset();
    set_script(any_script());
    let v: deserr::Value<SV> = deserr::Value::String(String::new());
    let r = <char as Deserr<R>>::deserialize_from_value::<SV>(v, deserr::ValuePointerRef::Origin);
    post_c01(&r);
    assert!(r.is_err(), "C05: char accepted the empty string");
    one_report(R_UNEXP);
    kani::cover!(r.is_err(), "reached");
}
