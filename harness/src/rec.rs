//! `Rec<M>` — the recording error type.  Ground truth (how many reports were
//! created, what each said, which answers were given) lives in statics that the
//! code under test cannot touch; a `Rec` value only carries the *set of report
//! ids* it was built from, so "the error type keeps what it is handed" holds by
//! construction and loss / double counting become observable.
//!
//! `M` selects the monitors compiled into `error` / `merge` (DESIGN lesson 6).
use crate::vsrc::*;
use core::ops::ControlFlow;
use deserr::{DeserializeError, ErrorKind, IntoValue, Map, MergeWithError, Sequence, Value, ValuePointerRef};

pub const MAXREP: usize = 6;
pub const MAXDEC: usize = 10;
pub const MAXDEPTH: usize = 3;

pub const M_LOG: u8 = 1;
pub const M_C03: u8 = 2;
pub const M_C04: u8 = 4;

pub const R_KIND: u8 = 0; // IncorrectValueKind
pub const R_MISSING: u8 = 1;
pub const R_UNKKEY: u8 = 2;
pub const R_UNKVAL: u8 = 3;
pub const R_BADLEN: u8 = 4;
pub const R_UNEXP: u8 = 5;
pub const R_FOREIGN: u8 = 6;

#[derive(Clone, Copy, PartialEq, Eq)]
pub struct StepC {
    pub is_key: bool,
    /// key string id, or index
    pub v: u8,
}

#[derive(Clone, Copy)]
pub struct Loc {
    /// 255: deeper than MAXDEPTH (never expected)
    pub depth: u8,
    pub steps: [StepC; MAXDEPTH],
}

pub const LOC0: Loc = Loc { depth: 0, steps: [StepC { is_key: false, v: 0 }; MAXDEPTH] };

#[derive(Clone, Copy)]
pub struct Rep {
    pub kind: u8,
    pub loc: Loc,
    /// R_KIND: kind of `actual`; R_MISSING/R_UNKKEY/R_UNKVAL: string id; R_BADLEN: actual length;
    /// R_FOREIGN: the foreign error's tag
    pub d: u8,
    /// R_KIND: scalar payload of `actual` (bool / integer bits / float bits / string id / container length);
    /// R_BADLEN: expected length
    pub val: u64,
    /// R_KIND: accepted kinds as a bit set; R_UNKKEY / R_UNKVAL: number of accepted strings
    pub acc: u16,
    /// R_KIND: length of the accepted list; R_UNKKEY/R_UNKVAL: accepted ids packed 4 bits each (first 4)
    pub acc2: u16,
    /// answer given: true = Continue
    pub cont: bool,
    /// value of EXAMINED when the report was made
    pub at: u32,
    /// (expected reports only) the property the expectation belongs to
    pub tag: u8,
}

pub const REP0: Rep = Rep { kind: 0, loc: LOC0, d: 0, val: 0, acc: 0, acc2: 0, cont: true, at: 0, tag: 0 };

pub static mut NREP: u8 = 0;
pub static mut NDEC: u8 = 0;
pub static mut SCRIPT: [bool; MAXDEC] = [true; MAXDEC];
pub static mut BROKE: bool = false;
pub static mut EXAM_AT_BREAK: u32 = 0;
pub static mut NREP_AT_BREAK: u8 = 0;
pub static mut LOG: [Rep; MAXREP] = [REP0; MAXREP];
/// hand-overs between two *different* error types (field-level `error =`)
pub static mut XMERGE: u8 = 0;
/// number of merge() calls
pub static mut NMERGE: u8 = 0;

pub fn reset() {
    unsafe {
        NREP = 0;
        NDEC = 0;
        BROKE = false;
        EXAM_AT_BREAK = 0;
        NREP_AT_BREAK = 0;
        XMERGE = 0;
        NMERGE = 0;
    }
    crate::vsrc::reset_src();
    crate::catalogue::reset_calls();
}

pub fn set_script(s: [bool; MAXDEC]) {
    unsafe {
        SCRIPT = s;
    }
}

pub fn all_continue() {
    set_script([true; MAXDEC]);
}

pub fn all_reports_mask() -> u16 {
    unsafe { ((1u32 << NREP) - 1) as u16 }
}

#[derive(Debug)]
pub struct Rec<const M: u8> {
    pub mask: u16,
}

fn new_report() -> u8 {
    unsafe {
        assert!((NREP as usize) < MAXREP, "harness bound: more reports than MAXREP");
        let id = NREP;
        NREP += 1;
        id
    }
}

fn answer<const M: u8>(r: Rec<M>) -> (bool, ControlFlow<Rec<M>, Rec<M>>) {
    unsafe {
        assert!((NDEC as usize) < MAXDEC, "harness bound: more decisions than MAXDEC");
        let a = SCRIPT[NDEC as usize];
        NDEC += 1;
        if a {
            (true, ControlFlow::Continue(r))
        } else {
            if !BROKE {
                BROKE = true;
                EXAM_AT_BREAK = EXAMINED;
                NREP_AT_BREAK = NREP;
            }
            (false, ControlFlow::Break(r))
        }
    }
}

pub fn decode(loc: ValuePointerRef) -> Loc {
    // walk back (depth <= MAXDEPTH), then reverse
    let mut rev = [StepC { is_key: false, v: 0 }; MAXDEPTH];
    let mut n = 0usize;
    let mut cur = loc;
    loop {
        match cur {
            ValuePointerRef::Origin => break,
            ValuePointerRef::Key { key, prev } => {
                if n == MAXDEPTH {
                    return Loc { depth: 255, steps: rev };
                }
                rev[n] = StepC { is_key: true, v: ident(key) };
                n += 1;
                cur = *prev;
            }
            ValuePointerRef::Index { index, prev } => {
                if n == MAXDEPTH {
                    return Loc { depth: 255, steps: rev };
                }
                rev[n] = StepC { is_key: false, v: if index < 255 { index as u8 } else { 255 } };
                n += 1;
                cur = *prev;
            }
        }
    }
    let mut out = LOC0;
    out.depth = n as u8;
    let mut i = 0;
    while i < n {
        out.steps[i] = rev[n - 1 - i];
        i += 1;
    }
    out
}

/// Resolve a location against the arena from the root node `0`.
/// Returns the node id, or 255 when the location does not exist in the payload.
/// Keys are resolved to the first member carrying the key.
pub fn resolve(loc: &Loc) -> u8 {
    if loc.depth == 255 {
        return 255;
    }
    let mut cur: u8 = 0;
    let mut i = 0;
    while i < loc.depth as usize {
        let n = node(cur);
        let st = loc.steps[i];
        if st.is_key {
            if n.kind != K_MAP {
                return 255;
            }
            let mut j = 0;
            let mut found = 255u8;
            while j < n.len as usize {
                if found == 255 && n.keys[j] == st.v {
                    found = n.kids[j];
                }
                j += 1;
            }
            if found == 255 {
                return 255;
            }
            cur = found;
        } else {
            if n.kind != K_SEQ || st.v >= n.len {
                return 255;
            }
            cur = n.kids[st.v as usize];
        }
        i += 1;
    }
    cur
}

pub fn is_prefix(a: &Loc, b: &Loc) -> bool {
    if a.depth == 255 || b.depth == 255 || a.depth > b.depth {
        return false;
    }
    let mut i = 0;
    while i < a.depth as usize {
        if a.steps[i] != b.steps[i] {
            return false;
        }
        i += 1;
    }
    true
}

pub fn loc_eq(a: &Loc, b: &Loc) -> bool {
    a.depth == b.depth && is_prefix(a, b)
}

fn has_key(n: &Node, id: u8) -> bool {
    let mut j = 0;
    while j < n.len as usize {
        if n.keys[j] == id {
            return true;
        }
        j += 1;
    }
    false
}

/// Observe a report through the public API only.
fn observe<V: IntoValue>(error: ErrorKind<V>, loc: Loc) -> Rep {
    let mut r = REP0;
    r.loc = loc;
    r.at = unsafe { EXAMINED };
    match error {
        ErrorKind::IncorrectValueKind { actual, accepted } => {
            r.kind = R_KIND;
            r.d = kcode(actual.kind());
            r.val = match &actual {
                Value::Null => 0,
                Value::Boolean(b) => *b as u64,
                Value::Integer(u) => *u,
                Value::NegativeInteger(i) => *i as u64,
                Value::Float(f) => f.to_bits(),
                Value::String(s) => ident(s) as u64,
                Value::Sequence(s) => s.len() as u64,
                Value::Map(m) => m.len() as u64,
            };
            let mut i = 0;
            while i < accepted.len() {
                r.acc |= 1 << kcode(accepted[i]);
                i += 1;
            }
            r.acc2 = accepted.len() as u16;
            core::mem::forget(actual);
        }
        ErrorKind::MissingField { field } => {
            r.kind = R_MISSING;
            r.d = ident(field);
        }
        ErrorKind::UnknownKey { key, accepted } => {
            r.kind = R_UNKKEY;
            r.d = ident(key);
            r.acc = accepted.len() as u16;
            let mut i = 0;
            while i < accepted.len() && i < 4 {
                r.acc2 |= ((ident(accepted[i]) & 15) as u16) << (4 * i);
                i += 1;
            }
        }
        ErrorKind::UnknownValue { value, accepted } => {
            r.kind = R_UNKVAL;
            r.d = ident(value);
            r.acc = accepted.len() as u16;
            let mut i = 0;
            while i < accepted.len() && i < 4 {
                r.acc2 |= ((ident(accepted[i]) & 15) as u16) << (4 * i);
                i += 1;
            }
        }
        ErrorKind::BadSequenceLen { actual, expected } => {
            r.kind = R_BADLEN;
            r.d = actual.len() as u8;
            r.val = expected as u64;
        }
        ErrorKind::Unexpected { msg } => {
            r.kind = R_UNEXP;
            core::mem::forget(msg);
        }
    }
    r
}

fn acc_contains(r: &Rep, id: u8) -> bool {
    let mut i = 0;
    while i < r.acc as usize && i < 4 {
        if ((r.acc2 >> (4 * i)) & 15) as u8 == id {
            return true;
        }
        i += 1;
    }
    false
}

/// C04: what the report says is true of the payload at the reported position.
fn check_c04(r: &Rep) {
    let n = resolve(&r.loc);
    assert!(n != 255, "C04: the report's location does not exist in the payload");
    let nd = node(n);
    match r.kind {
        R_KIND => {
            assert!(nd.kind == r.d, "C04: `actual` has not the kind of the value at the location");
            let v = match nd.kind {
                K_NULL => 0,
                K_BOOL => nd.b as u64,
                K_INT => nd.u,
                K_NEG => nd.i as u64,
                K_FLOAT => nd.f.to_bits(),
                K_STR => nd.s as u64,
                _ => nd.len as u64,
            };
            assert!(v == r.val, "C04: `actual` is not the value found at the location");
            assert!(r.acc & (1 << r.d) == 0, "C04: kind error although the actual kind is accepted");
        }
        R_MISSING => {
            assert!(nd.kind == K_MAP, "C04: missing field reported at a non-object");
            assert!(!has_key(&nd, r.d), "C04: field reported missing is present in the object there");
        }
        R_UNKKEY => {
            assert!(nd.kind == K_MAP, "C04: unknown key reported at a non-object");
            assert!(has_key(&nd, r.d), "C04: unknown key is not a key of the object there");
            assert!(!acc_contains(r, r.d), "C04: unknown key is among the accepted keys");
        }
        R_UNKVAL => {
            assert!(nd.kind == K_STR && nd.s == r.d, "C04: unknown value is not the string found there");
            assert!(!acc_contains(r, r.d), "C04: unknown value is among the accepted values");
        }
        R_BADLEN => {
            assert!(nd.kind == K_SEQ && nd.len == r.d, "C04: `actual` sequence is not the one at the location");
            assert!(r.val != r.d as u64, "C04: arity error although the length is the expected one");
        }
        _ => {}
    }
}

fn check_c04_merge(other_mask: u16, loc: &Loc) {
    assert!(resolve(loc) != 255, "C04: merge location does not exist in the payload");
    let mut i = 0;
    while i < MAXREP {
        if other_mask & (1 << i) != 0 {
            let l = unsafe { LOG[i].loc };
            assert!(is_prefix(loc, &l), "C04: merge location is not an ancestor-or-self of a report handed over");
        }
        i += 1;
    }
}

impl<const M: u8> DeserializeError for Rec<M> {
    fn error<V: IntoValue>(self_: Option<Self>, error: ErrorKind<V>, location: ValuePointerRef) -> ControlFlow<Self, Self> {
        if M & M_C03 != 0 {
            assert!(!unsafe { BROKE }, "C03: a new report was made after a stop answer");
        }
        let id = new_report();
        if M & (M_LOG | M_C04) != 0 {
            let mut rep = observe(error, decode(location));
            if M & M_C04 != 0 {
                check_c04(&rep);
            }
            let (a, cf) = answer(Rec { mask: self_.map_or(0, |s| s.mask) | (1 << id) });
            rep.cont = a;
            unsafe {
                LOG[id as usize] = rep;
            }
            cf
        } else {
            core::mem::forget(error);
            answer(Rec { mask: self_.map_or(0, |s| s.mask) | (1 << id) }).1
        }
    }
}

impl<const A: u8, const B: u8> MergeWithError<Rec<B>> for Rec<A> {
    fn merge(self_: Option<Self>, other: Rec<B>, merge_location: ValuePointerRef) -> ControlFlow<Self, Self> {
        let sm = self_.map_or(0, |s| s.mask);
        assert!(sm & other.mask == 0, "C01: a report is counted twice");
        unsafe {
            NMERGE += 1;
            if A != B {
                XMERGE += 1;
            }
        }
        if A & M_C04 != 0 {
            check_c04_merge(other.mask, &decode(merge_location));
        }
        answer(Rec { mask: sm | other.mask }).1
    }
}

/// An error produced by user functions (try_from, validate, custom missing-field /
/// unknown-key functions).
#[derive(Debug, Clone, Copy, PartialEq)]
pub struct Foreign(pub u8);

impl<const M: u8> MergeWithError<Foreign> for Rec<M> {
    fn merge(self_: Option<Self>, other: Foreign, merge_location: ValuePointerRef) -> ControlFlow<Self, Self> {
        if M & M_C03 != 0 {
            assert!(!unsafe { BROKE }, "C03: a foreign error was converted after a stop answer");
        }
        let id = new_report();
        let mut rep = REP0;
        rep.kind = R_FOREIGN;
        rep.d = other.0;
        rep.at = unsafe { EXAMINED };
        if M & (M_LOG | M_C04) != 0 {
            rep.loc = decode(merge_location);
            if M & M_C04 != 0 {
                assert!(resolve(&rep.loc) != 255, "C04: the location of a conversion error does not exist in the payload");
            }
        }
        let (a, cf) = answer(Rec { mask: self_.map_or(0, |s| s.mask) | (1 << id) });
        rep.cont = a;
        if M & (M_LOG | M_C04) != 0 {
            unsafe {
                LOG[id as usize] = rep;
            }
        }
        cf
    }
}

// ------------------------------------------------------------ post-conditions

/// C01: Ok only when nothing was reported; Err built from every report.
pub fn post_c01<T, const M: u8>(r: &Result<T, Rec<M>>) {
    match r {
        Ok(_) => assert!(unsafe { NREP } == 0, "C01: Ok although something was reported"),
        Err(e) => {
            assert!(unsafe { NREP } > 0, "C01: Err although nothing was reported");
            assert!(e.mask == all_reports_mask(), "C01: the returned error does not hold every report exactly once");
        }
    }
}

pub fn rep(i: usize) -> Rep {
    unsafe { LOG[i] }
}

pub fn nrep() -> usize {
    unsafe { NREP as usize }
}

/// Expected report: same comparable content as `Rep`.
pub fn rep_matches(a: &Rep, b: &Rep) -> bool {
    a.kind == b.kind && loc_eq(&a.loc, &b.loc) && a.d == b.d && a.val == b.val && a.acc == b.acc && a.acc2 == b.acc2
}

pub fn count_in_log(x: &Rep) -> usize {
    let mut c = 0;
    let mut i = 0;
    while i < nrep() {
        if rep_matches(&rep(i), x) {
            c += 1;
        }
        i += 1;
    }
    c
}

#[cfg(kani)]
pub fn any_script() -> [bool; MAXDEC] {
    kani::any()
}

/// Script `Continue^k Break^inf` for a symbolic k in 0..=MAXDEC.
#[cfg(kani)]
pub fn switch_script() -> ([bool; MAXDEC], u8) {
    let k: u8 = kani::any();
    kani::assume(k as usize <= MAXDEC);
    let mut s = [false; MAXDEC];
    let mut i = 0;
    while i < MAXDEC {
        s[i] = (i as u8) < k;
        i += 1;
    }
    (s, k)
}

pub fn loc1(s: StepC) -> Loc {
    let mut l = LOC0;
    l.depth = 1;
    l.steps[0] = s;
    l
}
pub fn loc2(a: StepC, b: StepC) -> Loc {
    let mut l = LOC0;
    l.depth = 2;
    l.steps[0] = a;
    l.steps[1] = b;
    l
}
pub fn idx(i: u8) -> StepC {
    StepC { is_key: false, v: i }
}
pub fn key(i: u8) -> StepC {
    StepC { is_key: true, v: i }
}
