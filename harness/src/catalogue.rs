//! Catalogue of derive inputs ("programs" quantifier, DESIGN 3.4) with, for each
//! type, its reference model: expected reports (tagged by the property they
//! belong to), expected value, expected user-function calls.  The models are
//! written from the documentation; effective key names are spelled out by hand.
#![allow(non_snake_case)]
use crate::model::*;
use crate::rec::*;
use crate::vsrc::*;
use deserr::{Deserr, ValuePointerRef};

// ------------------------------------------------------------------ user functions

pub const NFN: usize = 8;
/// number of calls of each user function
pub static mut CALLS: [u8; NFN] = [0; NFN];
/// last argument (numeric projection)
pub static mut ARGS: [u64; NFN] = [0; NFN];
/// depth of the location argument of the last call (255 = none)
pub static mut ARGLOC: [u8; NFN] = [255; NFN];
/// string id argument of the last call (missing-field / unknown-key functions)
pub static mut ARGKEY: [u8; NFN] = [255; NFN];
/// whether the fallible function fails (symbolic, set by the harness)
pub static mut FAIL: [bool; NFN] = [false; NFN];

pub const F_CONV_V: usize = 0; // field try_from by value
pub const F_CONV_R: usize = 1; // field try_from by reference
pub const F_FROM: usize = 2; // field from
pub const F_MAP: usize = 3; // field map
pub const F_VALIDATE: usize = 4;
pub const F_CCONV: usize = 5; // container try_from
pub const F_MISS: usize = 6; // custom missing-field functions (count over all)
pub const F_UNK: usize = 7; // custom unknown-key function

pub fn reset_calls() {
    unsafe {
        CALLS = [0; NFN];
        ARGS = [0; NFN];
        ARGLOC = [255; NFN];
        ARGKEY = [255; NFN];
    }
}

#[cfg(kani)]
pub fn any_outcomes() {
    unsafe {
        FAIL = kani::any();
    }
}

fn called(f: usize, arg: u64) -> bool {
    unsafe {
        CALLS[f] += 1;
        ARGS[f] = arg;
        FAIL[f]
    }
}

pub fn calls(f: usize) -> u8 {
    unsafe { CALLS[f] }
}
pub fn arg(f: usize) -> u64 {
    unsafe { ARGS[f] }
}
pub fn fails(f: usize) -> bool {
    unsafe { FAIL[f] }
}

#[derive(Debug, PartialEq, Clone, Copy)]
pub struct W(pub u8);

pub fn conv_v(x: u8) -> Result<W, Foreign> {
    if called(F_CONV_V, x as u64) {
        Err(Foreign(F_CONV_V as u8))
    } else {
        Ok(W(x))
    }
}
pub fn conv_r(x: &u8) -> Result<W, Foreign> {
    if called(F_CONV_R, *x as u64) {
        Err(Foreign(F_CONV_R as u8))
    } else {
        Ok(W(*x))
    }
}
pub fn from_f(x: u8) -> W {
    called(F_FROM, x as u64);
    W(x)
}
pub fn map_inc(x: u8) -> u8 {
    called(F_MAP, x as u64);
    x.wrapping_add(1)
}
fn locdepth(l: ValuePointerRef) -> u8 {
    decode(l).depth
}
pub fn miss_fn(field: &str, location: ValuePointerRef) -> Foreign {
    called(F_MISS, 0);
    let id = ident(field);
    unsafe {
        ARGKEY[F_MISS] = id;
        ARGLOC[F_MISS] = locdepth(location);
    }
    // the tag of the foreign error identifies the field it was made for
    Foreign(100 + id)
}
pub fn unk_fn(key: &str, accepted: &[&str], location: ValuePointerRef) -> Foreign {
    // ARGS: accepted list packed 4 bits per entry + length in the top byte
    let mut packed: u64 = (accepted.len() as u64) << 56;
    let mut i = 0;
    while i < accepted.len() && i < 8 {
        packed |= ((ident(accepted[i]) & 15) as u64) << (4 * i);
        i += 1;
    }
    called(F_UNK, packed);
    let id = ident(key);
    unsafe {
        ARGKEY[F_UNK] = id;
        ARGLOC[F_UNK] = locdepth(location);
    }
    Foreign(200 + id)
}

// ------------------------------------------------------------------ model helpers

pub const T_C02: u8 = 2;
pub const T_C08: u8 = 8;
pub const T_C09: u8 = 9;
pub const T_C10: u8 = 10;
pub const T_C11: u8 = 11;

pub fn tagged(mut r: Rep, tag: u8) -> Rep {
    r.tag = tag;
    r
}

/// first member of the object `node` carrying key `k` (not `except`)
pub fn member(n: &Node, k: u8) -> Option<u8> {
    let mut j = 0;
    while j < n.len as usize {
        if n.keys[j] == k {
            return Some(n.kids[j]);
        }
        j += 1;
    }
    None
}

/// `false` (and a kind error expected) when the payload is not an object
pub fn want_map(n: &Node, loc: &Loc, exp: &mut Exp) -> bool {
    if n.kind != K_MAP {
        exp.push(tagged(kind_err(n, loc, &[K_MAP]), T_C02));
        return false;
    }
    true
}

pub enum Miss {
    Report,
    HasDefault,
    Custom,
}

/// A non-skipped field of type `T` read from key `k`.
pub fn field<T: Model>(n: &Node, loc: &Loc, k: u8, miss: Miss, exp: &mut Exp) {
    match member(n, k) {
        Some(kid) => T::expect(kid, &push_loc(loc, key(k)), exp),
        None => match miss {
            Miss::Report => exp.push(tagged(missing(loc, k), T_C08)),
            Miss::HasDefault => {}
            Miss::Custom => exp.push(tagged(foreign(loc, 100 + k), T_C08)),
        },
    }
}

/// A field with `try_from(u8) = f`: the conversion's failure is a report at the field.
pub fn field_conv(n: &Node, loc: &Loc, k: u8, f: usize, exp: &mut Exp) {
    match member(n, k) {
        Some(kid) => {
            let before = exp.n;
            u8::expect(kid, &push_loc(loc, key(k)), exp);
            if exp.n == before && fails(f) {
                exp.push(tagged(foreign(&push_loc(loc, key(k)), f as u8), T_C11));
            }
        }
        None => exp.push(tagged(missing(loc, k), T_C08)),
    }
}

#[derive(Clone, Copy, PartialEq)]
pub enum Deny {
    No,
    Default,
    Custom,
}

/// Members whose key is not an accepted key (and not the tag).
pub fn unknown(n: &Node, loc: &Loc, accepted: &[u8], tagkey: u8, deny: Deny, exp: &mut Exp) {
    if deny == Deny::No {
        return;
    }
    let mut j = 0;
    let mut tag_seen = false;
    while j < n.len as usize {
        let k = n.keys[j];
        let mut known = false;
        let mut i = 0;
        while i < accepted.len() {
            if accepted[i] == k {
                known = true;
            }
            i += 1;
        }
        if k == tagkey && !tag_seen {
            // the (first) tag member is consumed by the enum itself
            tag_seen = true;
        } else if !known {
            match deny {
                Deny::Default => exp.push(tagged(unknown_key(loc, k, accepted), T_C09)),
                _ => exp.push(tagged(foreign(loc, 200 + k), T_C09)),
            }
        }
        j += 1;
    }
}

pub fn val<T: Model>(v: &T, n: &Node, k: u8) -> Option<bool> {
    member(n, k).map(|kid| v.matches(kid))
}

#[macro_export]
macro_rules! filled {
    ($v:expr, $n:expr, $k:expr) => {
        match $crate::catalogue::val(&$v, $n, $k) {
            Some(ok) => assert!(ok, "C07: a field is not filled from the entry under its effective key"),
            None => assert!(false, "C07: a field was filled although the entry under its effective key is absent (it was read from another entry)"),
        }
    };
}
#[macro_export]
macro_rules! filled_or {
    ($v:expr, $n:expr, $k:expr, $d:expr) => {
        match $crate::catalogue::val(&$v, $n, $k) {
            Some(ok) => assert!(ok, "C07: a field is not filled from the entry under its effective key"),
            None => assert!($v == $d, "C08: an absent field with a default does not take its default"),
        }
    };
}

/// what every catalogue type provides on top of `Model`
pub trait Cat: Model {
    /// checks on the Ok value (C06/C07/C08 tagged assertions)
    fn check_value(&self, node: u8);
    /// checks on the user-function call logs after a keep-going run (C11/C08/C09)
    fn check_calls(_node: u8, _ok: bool) {}
}

// ================================================================== S1
// rename_all camelCase, rename beats rename_all, default, deny_unknown_fields
pub const S1_TAB: [&str; 7] = ["myA", "b_x", "myC", "my_a", "my_b", "mya", "MyA"];
#[derive(Deserr, Debug, PartialEq)]
#[deserr(rename_all = camelCase, deny_unknown_fields)]
pub struct S1 {
    pub my_a: u8,
    #[deserr(rename = "b_x")]
    pub my_b: bool,
    #[deserr(default)]
    pub my_c: u8,
}
impl Model for S1 {
    fn expect(node: u8, loc: &Loc, exp: &mut Exp) {
        let n = crate::vsrc::node(node);
        if !want_map(&n, loc, exp) {
            return;
        }
        field::<u8>(&n, loc, 0, Miss::Report, exp);
        field::<bool>(&n, loc, 1, Miss::Report, exp);
        field::<u8>(&n, loc, 2, Miss::HasDefault, exp);
        unknown(&n, loc, &[0, 1, 2], 255, Deny::Default, exp);
    }
    fn matches(&self, node: u8) -> bool {
        let n = crate::vsrc::node(node);
        n.kind == K_MAP
            && val(&self.my_a, &n, 0) == Some(true)
            && val(&self.my_b, &n, 1) == Some(true)
            && val(&self.my_c, &n, 2).unwrap_or(self.my_c == 0)
    }
}
impl Cat for S1 {
    fn check_value(&self, node: u8) {
        let n = crate::vsrc::node(node);
        filled!(self.my_a, &n, 0);
        filled!(self.my_b, &n, 1);
        filled_or!(self.my_c, &n, 2, 0);
    }
}

// ================================================================== S2
// rename_all lowercase, default = expr, skip declared in the middle, Option, no deny
pub const S2_TAB: [&str; 6] = ["a", "o", "myf", "myF", "s", "zz"];
#[derive(Deserr, Debug, PartialEq)]
#[deserr(rename_all = lowercase)]
pub struct S2 {
    #[deserr(default = 7)]
    pub a: u8,
    #[deserr(skip)]
    pub s: u8,
    pub o: Option<u8>,
    pub myF: bool,
}
impl Model for S2 {
    fn expect(node: u8, loc: &Loc, exp: &mut Exp) {
        let n = crate::vsrc::node(node);
        if !want_map(&n, loc, exp) {
            return;
        }
        field::<u8>(&n, loc, 0, Miss::HasDefault, exp);
        field::<Option<u8>>(&n, loc, 1, Miss::Report, exp);
        field::<bool>(&n, loc, 2, Miss::Report, exp);
    }
    fn matches(&self, node: u8) -> bool {
        let n = crate::vsrc::node(node);
        n.kind == K_MAP
            && val(&self.a, &n, 0).unwrap_or(self.a == 7)
            && self.s == 0
            && val(&self.o, &n, 1) == Some(true)
            && val(&self.myF, &n, 2) == Some(true)
    }
}
impl Cat for S2 {
    fn check_value(&self, node: u8) {
        let n = crate::vsrc::node(node);
        filled_or!(self.a, &n, 0, 7);
        assert!(self.s == 0, "C08: a skipped field must take its default and never read the payload");
        filled!(self.o, &n, 1);
        filled!(self.myF, &n, 2);
    }
}

// ================================================================== S3
// custom missing-field functions (two fields, one default report between them),
// custom unknown-key function
pub const S3_TAB: [&str; 5] = ["a", "b", "c", "x", "yy"];
#[derive(Deserr, Debug, PartialEq)]
#[deserr(deny_unknown_fields = unk_fn, where_predicate = __Deserr_E: deserr::MergeWithError<Foreign>)]
pub struct S3 {
    #[deserr(missing_field_error = miss_fn)]
    pub a: u8,
    pub b: u8,
    #[deserr(missing_field_error = miss_fn)]
    pub c: bool,
}
impl Model for S3 {
    fn expect(node: u8, loc: &Loc, exp: &mut Exp) {
        let n = crate::vsrc::node(node);
        if !want_map(&n, loc, exp) {
            return;
        }
        field::<u8>(&n, loc, 0, Miss::Custom, exp);
        field::<u8>(&n, loc, 1, Miss::Report, exp);
        field::<bool>(&n, loc, 2, Miss::Custom, exp);
        unknown(&n, loc, &[0, 1, 2], 255, Deny::Custom, exp);
    }
    fn matches(&self, node: u8) -> bool {
        let n = crate::vsrc::node(node);
        n.kind == K_MAP && val(&self.a, &n, 0) == Some(true) && val(&self.b, &n, 1) == Some(true) && val(&self.c, &n, 2) == Some(true)
    }
}
impl Cat for S3 {
    fn check_value(&self, node: u8) {
        let n = crate::vsrc::node(node);
        filled!(self.a, &n, 0);
        filled!(self.b, &n, 1);
        filled!(self.c, &n, 2);
    }
    fn check_calls(node: u8, _ok: bool) {
        let n = crate::vsrc::node(node);
        if n.kind != K_MAP {
            assert!(calls(F_MISS) == 0 && calls(F_UNK) == 0, "C08: custom functions called although the payload is not an object");
            return;
        }
        let want_miss = member(&n, 0).is_none() as u8 + member(&n, 2).is_none() as u8;
        assert!(calls(F_MISS) == want_miss, "C08: the missing_field_error function is not called exactly once per absent field");
        if want_miss > 0 {
            assert!(unsafe { ARGLOC[F_MISS] } == 0, "C08: the missing_field_error function must receive the container's location");
            let last = if member(&n, 2).is_none() { 2 } else { 0 };
            assert!(unsafe { ARGKEY[F_MISS] } == last, "C08: the missing_field_error function must receive the field's effective key");
        }
        let mut unk = 0u8;
        let mut last = 255u8;
        let mut j = 0;
        while j < n.len as usize {
            if n.keys[j] > 2 {
                unk += 1;
                last = n.keys[j];
            }
            j += 1;
        }
        assert!(calls(F_UNK) == unk, "C09: the unknown-key function is not called exactly once per unknown key");
        if unk > 0 {
            assert!(unsafe { ARGLOC[F_UNK] } == 0, "C09: the unknown-key function must receive the container's location");
            assert!(unsafe { ARGKEY[F_UNK] } == last, "C09: the unknown-key function must receive the unknown key");
            assert!(arg(F_UNK) == (3u64 << 56) | 0x210, "C09: the unknown-key function must receive the accepted keys in declaration order");
        }
    }
}

// ================================================================== S4
// field-level try_from (by value), from, map (+ default), plain field
pub const S4_TAB: [&str; 5] = ["v", "f", "m", "x", "q"];
#[derive(Deserr, Debug, PartialEq)]
pub struct S4 {
    pub x: bool,
    #[deserr(try_from(u8) = conv_v -> Foreign)]
    pub v: W,
    #[deserr(from(u8) = from_f, default = W(9))]
    pub f: W,
    #[deserr(default = 3, map = map_inc)]
    pub m: u8,
}
impl Model for S4 {
    fn expect(node: u8, loc: &Loc, exp: &mut Exp) {
        let n = crate::vsrc::node(node);
        if !want_map(&n, loc, exp) {
            return;
        }
        field::<bool>(&n, loc, 3, Miss::Report, exp);
        field_conv(&n, loc, 0, F_CONV_V, exp);
        field::<u8>(&n, loc, 1, Miss::HasDefault, exp);
        field::<u8>(&n, loc, 2, Miss::HasDefault, exp);
    }
    fn matches(&self, node: u8) -> bool {
        let n = crate::vsrc::node(node);
        n.kind == K_MAP
            && val(&self.x, &n, 3) == Some(true)
            && val(&self.v.0, &n, 0) == Some(true)
            && val(&self.f.0, &n, 1).unwrap_or(self.f.0 == 9)
            && match member(&n, 2) {
                Some(k) => self.m.wrapping_sub(1).matches(k),
                None => self.m == 4,
            }
    }
}
impl Cat for S4 {
    fn check_value(&self, node: u8) {
        let n = crate::vsrc::node(node);
        filled!(self.x, &n, 3);
        filled!(self.v.0, &n, 0);
        filled_or!(self.f.0, &n, 1, 9);
        match member(&n, 2) {
            Some(k) => assert!(self.m.wrapping_sub(1).matches(k), "C11: `map` must be applied to the deserialized value"),
            None => assert!(self.m == 4, "C08: `map` must be applied on top of the default"),
        }
    }
    fn check_calls(node: u8, ok: bool) {
        let n = crate::vsrc::node(node);
        let good = |k: u8| match member(&n, k) {
            Some(kid) => {
                let m = crate::vsrc::node(kid);
                m.kind == K_INT && m.u <= 255
            }
            None => false,
        };
        if n.kind != K_MAP {
            assert!(calls(F_CONV_V) == 0 && calls(F_FROM) == 0 && calls(F_MAP) == 0, "C11: user functions called although the payload is not an object");
            return;
        }
        assert!(calls(F_CONV_V) == good(0) as u8, "C11: try_from must run exactly once iff its intermediate value deserialized");
        assert!(calls(F_FROM) == good(1) as u8, "C11: from must run exactly once iff its intermediate value deserialized");
        assert!(calls(F_MAP) == ok as u8, "C11: map must run exactly once per field of a container that succeeded, never otherwise");
        if good(0) {
            assert!(arg(F_CONV_V) == crate::vsrc::node(member(&n, 0).unwrap()).u, "C11: try_from must receive the deserialized intermediate value");
        }
        if good(1) {
            assert!(arg(F_FROM) == crate::vsrc::node(member(&n, 1).unwrap()).u, "C11: from must receive the deserialized intermediate value");
        }
    }
}

// ================================================================== S5
// field-level error type + try_from by reference
pub type RecF = Rec<{ 64 | M_LOG }>;
pub const S5_TAB: [&str; 4] = ["v", "b", "w", "zz"];
#[derive(Deserr, Debug, PartialEq)]
#[deserr(where_predicate = __Deserr_E: deserr::MergeWithError<RecF>)]
pub struct S5 {
    pub b: u8,
    #[deserr(error = RecF, try_from(&u8) = conv_r -> Foreign)]
    pub v: W,
    #[deserr(error = RecF)]
    pub w: bool,
}
impl Model for S5 {
    fn expect(node: u8, loc: &Loc, exp: &mut Exp) {
        let n = crate::vsrc::node(node);
        if !want_map(&n, loc, exp) {
            return;
        }
        field::<u8>(&n, loc, 1, Miss::Report, exp);
        field_conv(&n, loc, 0, F_CONV_R, exp);
        field::<bool>(&n, loc, 2, Miss::Report, exp);
    }
    fn matches(&self, node: u8) -> bool {
        let n = crate::vsrc::node(node);
        n.kind == K_MAP && val(&self.b, &n, 1) == Some(true) && val(&self.v.0, &n, 0) == Some(true) && val(&self.w, &n, 2) == Some(true)
    }
}
impl Cat for S5 {
    fn check_value(&self, node: u8) {
        let n = crate::vsrc::node(node);
        filled!(self.b, &n, 1);
        filled!(self.v.0, &n, 0);
        filled!(self.w, &n, 2);
    }
    fn check_calls(node: u8, _ok: bool) {
        let n = crate::vsrc::node(node);
        if n.kind != K_MAP {
            return;
        }
        let good_v = match member(&n, 0) {
            Some(kid) => {
                let m = crate::vsrc::node(kid);
                m.kind == K_INT && m.u <= 255
            }
            None => false,
        };
        assert!(calls(F_CONV_R) == good_v as u8, "C11: try_from must run exactly once iff its intermediate value deserialized");
        // every failure of a field with a field-level error type is handed over to the
        // container's error type exactly once
        let bad_v = member(&n, 0).is_some() && (!good_v || fails(F_CONV_R));
        let bad_w = match member(&n, 2) {
            Some(kid) => crate::vsrc::node(kid).kind != K_BOOL,
            None => false,
        };
        assert!(unsafe { XMERGE } == bad_v as u8 + bad_w as u8, "C11: errors of a field-level error type must be handed to the container's error type exactly once");
    }
}

// ================================================================== S6
// validate on a struct
pub const S6_TAB: [&str; 3] = ["a", "b", "x"];
pub fn val6(v: S6, location: ValuePointerRef) -> Result<S6, Foreign> {
    let fail = called(F_VALIDATE, ((v.a as u64) << 8) | v.b as u64);
    unsafe {
        ARGLOC[F_VALIDATE] = locdepth(location);
    }
    if fail {
        Err(Foreign(F_VALIDATE as u8))
    } else {
        Ok(v)
    }
}
#[derive(Deserr, Debug, PartialEq)]
#[deserr(validate = val6 -> Foreign)]
pub struct S6 {
    pub a: u8,
    #[deserr(default = 5)]
    pub b: u8,
}
impl Model for S6 {
    fn expect(node: u8, loc: &Loc, exp: &mut Exp) {
        let n = crate::vsrc::node(node);
        if !want_map(&n, loc, exp) {
            return;
        }
        let before = exp.n;
        field::<u8>(&n, loc, 0, Miss::Report, exp);
        field::<u8>(&n, loc, 1, Miss::HasDefault, exp);
        if exp.n == before && fails(F_VALIDATE) {
            exp.push(tagged(foreign(loc, F_VALIDATE as u8), T_C11));
        }
    }
    fn matches(&self, node: u8) -> bool {
        let n = crate::vsrc::node(node);
        n.kind == K_MAP && val(&self.a, &n, 0) == Some(true) && val(&self.b, &n, 1).unwrap_or(self.b == 5)
    }
}
impl Cat for S6 {
    fn check_value(&self, node: u8) {
        let n = crate::vsrc::node(node);
        filled!(self.a, &n, 0);
        filled_or!(self.b, &n, 1, 5);
    }
    fn check_calls(node: u8, _ok: bool) {
        let n = crate::vsrc::node(node);
        let mut e = Exp::new();
        if n.kind == K_MAP {
            field::<u8>(&n, &LOC0, 0, Miss::Report, &mut e);
            field::<u8>(&n, &LOC0, 1, Miss::HasDefault, &mut e);
        }
        let fields_ok = n.kind == K_MAP && e.n == 0;
        assert!(calls(F_VALIDATE) == fields_ok as u8, "C11: validate must run exactly once when all fields succeeded, never otherwise");
        if fields_ok {
            let a = crate::vsrc::node(member(&n, 0).unwrap()).u;
            let b = match member(&n, 1) {
                Some(k) => crate::vsrc::node(k).u,
                None => 5,
            };
            assert!(arg(F_VALIDATE) == (a << 8) | b, "C11: validate must receive the finished value");
            assert!(unsafe { ARGLOC[F_VALIDATE] } == 0, "C11: validate must receive the container's location");
        }
    }
}

// ================================================================== C1 / C2
// container-level try_from (+ validate) and from
pub fn cconv(x: u8) -> Result<C1, Foreign> {
    if called(F_CCONV, x as u64) {
        Err(Foreign(F_CCONV as u8))
    } else {
        Ok(C1 { w: x })
    }
}
pub fn val_c1(v: C1, location: ValuePointerRef) -> Result<C1, Foreign> {
    let fail = called(F_VALIDATE, v.w as u64);
    unsafe {
        ARGLOC[F_VALIDATE] = locdepth(location);
    }
    if fail {
        Err(Foreign(F_VALIDATE as u8))
    } else {
        Ok(v)
    }
}
#[derive(Deserr, Debug, PartialEq)]
#[deserr(try_from(u8) = cconv -> Foreign, validate = val_c1 -> Foreign)]
pub struct C1 {
    pub w: u8,
}
impl Model for C1 {
    fn expect(node: u8, loc: &Loc, exp: &mut Exp) {
        let before = exp.n;
        u8::expect(node, loc, exp);
        if exp.n == before {
            if fails(F_CCONV) {
                exp.push(tagged(foreign(loc, F_CCONV as u8), T_C11));
            } else if fails(F_VALIDATE) {
                exp.push(tagged(foreign(loc, F_VALIDATE as u8), T_C11));
            }
        }
    }
    fn matches(&self, node: u8) -> bool {
        self.w.matches(node)
    }
}
impl Cat for C1 {
    fn check_value(&self, node: u8) {
        assert!(self.w.matches(node), "C11: what the conversion returns is what ends up in the result");
    }
    fn check_calls(node: u8, _ok: bool) {
        let n = crate::vsrc::node(node);
        let good = n.kind == K_INT && n.u <= 255;
        assert!(calls(F_CCONV) == good as u8, "C11: container try_from must run exactly once iff its intermediate value deserialized");
        assert!(calls(F_VALIDATE) == (good && !fails(F_CCONV)) as u8, "C11: validate must run exactly once after a successful conversion, never otherwise");
        if good {
            assert!(arg(F_CCONV) == n.u, "C11: container try_from must receive the deserialized intermediate value");
        }
    }
}

pub fn cfrom(x: &u8) -> C2 {
    called(F_FROM, *x as u64);
    C2 { w: *x }
}
#[derive(Deserr, Debug, PartialEq)]
#[deserr(from(&u8) = cfrom)]
pub struct C2 {
    pub w: u8,
}
impl Model for C2 {
    fn expect(node: u8, loc: &Loc, exp: &mut Exp) {
        u8::expect(node, loc, exp);
    }
    fn matches(&self, node: u8) -> bool {
        self.w.matches(node)
    }
}
impl Cat for C2 {
    fn check_value(&self, node: u8) {
        assert!(self.w.matches(node), "C11: what the conversion returns is what ends up in the result");
    }
    fn check_calls(node: u8, _ok: bool) {
        let n = crate::vsrc::node(node);
        let good = n.kind == K_INT && n.u <= 255;
        assert!(calls(F_FROM) == good as u8, "C11: container from must run exactly once iff its intermediate value deserialized");
    }
}

// ================================================================== E1
// internally tagged enum: unit / renamed unit / struct-like variant; the container's
// rename_all renames variants only; deny_unknown_fields
pub const E1_TAB: [&str; 8] = ["t", "unitV", "x_v", "structV", "my_a", "b", "myA", "UnitV"];
#[derive(Deserr, Debug, PartialEq)]
#[deserr(tag = "t", rename_all = camelCase, deny_unknown_fields)]
pub enum E1 {
    UnitV,
    #[deserr(rename = "x_v")]
    RenV,
    StructV {
        my_a: u8,
        #[deserr(default)]
        b: bool,
    },
}
/// common prelude of tagged enums: returns the id of the tag string, or 255 when a
/// report has been pushed
pub fn tag_of(n: &Node, loc: &Loc, tagkey: u8, exp: &mut Exp) -> u8 {
    if n.kind != K_MAP {
        exp.push(tagged(kind_err(n, loc, &[K_MAP]), T_C02));
        return 255;
    }
    match member(n, tagkey) {
        None => {
            exp.push(tagged(missing(loc, tagkey), T_C10));
            255
        }
        Some(kid) => {
            let t = crate::vsrc::node(kid);
            if t.kind != K_STR {
                exp.push(tagged(kind_err(&t, &push_loc(loc, key(tagkey)), &[K_STR]), T_C10));
                255
            } else {
                t.s
            }
        }
    }
}
/// like `member` but never returns the (first) tag member
pub fn member_not_tag(n: &Node, k: u8, tagkey: u8) -> Option<u8> {
    if k == tagkey {
        // a field sharing the tag's key can only be filled from a *second* member with that key
        let mut j = 0;
        let mut seen = false;
        while j < n.len as usize {
            if n.keys[j] == k {
                if seen {
                    return Some(n.kids[j]);
                }
                seen = true;
            }
            j += 1;
        }
        None
    } else {
        member(n, k)
    }
}
impl Model for E1 {
    fn expect(node: u8, loc: &Loc, exp: &mut Exp) {
        let n = crate::vsrc::node(node);
        let t = tag_of(&n, loc, 0, exp);
        if t == 255 {
            return;
        }
        match t {
            1 | 2 => {}
            3 => {
                field::<u8>(&n, loc, 4, Miss::Report, exp);
                field::<bool>(&n, loc, 5, Miss::HasDefault, exp);
                unknown(&n, loc, &[4, 5], 0, Deny::Default, exp);
            }
            _ => exp.push(tagged(unexp(loc), T_C10)),
        }
    }
    fn matches(&self, node: u8) -> bool {
        let n = crate::vsrc::node(node);
        if n.kind != K_MAP {
            return false;
        }
        let t = match member(&n, 0) {
            Some(k) => crate::vsrc::node(k),
            None => return false,
        };
        if t.kind != K_STR {
            return false;
        }
        match self {
            E1::UnitV => t.s == 1,
            E1::RenV => t.s == 2,
            E1::StructV { my_a, b } => t.s == 3 && val(my_a, &n, 4) == Some(true) && val(b, &n, 5).unwrap_or(!*b),
        }
    }
}
impl Cat for E1 {
    fn check_value(&self, node: u8) {
        let n = crate::vsrc::node(node);
        let t = match member(&n, 0) {
            Some(k) => crate::vsrc::node(k),
            None => {
                assert!(false, "C10: a variant was produced although the tag is absent");
                return;
            }
        };
        assert!(t.kind == K_STR, "C10: a variant was produced although the tag is not a string");
        match self {
            E1::UnitV => assert!(t.s == 1, "C10: the variant chosen is not the one whose effective name equals the tag"),
            E1::RenV => assert!(t.s == 2, "C10: the variant chosen is not the one whose effective name equals the tag"),
            E1::StructV { my_a, b } => {
                assert!(t.s == 3, "C10: the variant chosen is not the one whose effective name equals the tag");
                filled!(*my_a, &n, 4);
                filled_or!(*b, &n, 5, false);
            }
        }
    }
}

// ================================================================== E2
// two struct-like variants sharing a field name with different types; variant-level
// rename_all on the first only; no container rename_all; no deny
pub const E2_TAB: [&str; 7] = ["k", "A", "B", "fX", "f_x", "g", "a"];
#[derive(Deserr, Debug, PartialEq)]
#[deserr(tag = "k")]
pub enum E2 {
    #[deserr(rename_all = camelCase)]
    A { f_x: u8 },
    B {
        f_x: bool,
        #[deserr(default = 2)]
        g: u8,
    },
}
impl Model for E2 {
    fn expect(node: u8, loc: &Loc, exp: &mut Exp) {
        let n = crate::vsrc::node(node);
        let t = tag_of(&n, loc, 0, exp);
        if t == 255 {
            return;
        }
        match t {
            1 => field::<u8>(&n, loc, 3, Miss::Report, exp),
            2 => {
                field::<bool>(&n, loc, 4, Miss::Report, exp);
                field::<u8>(&n, loc, 5, Miss::HasDefault, exp);
            }
            _ => exp.push(tagged(unexp(loc), T_C10)),
        }
    }
    fn matches(&self, node: u8) -> bool {
        let n = crate::vsrc::node(node);
        if n.kind != K_MAP {
            return false;
        }
        let t = match member(&n, 0) {
            Some(k) => crate::vsrc::node(k),
            None => return false,
        };
        if t.kind != K_STR {
            return false;
        }
        match self {
            E2::A { f_x } => t.s == 1 && val(f_x, &n, 3) == Some(true),
            E2::B { f_x, g } => t.s == 2 && val(f_x, &n, 4) == Some(true) && val(g, &n, 5).unwrap_or(*g == 2),
        }
    }
}
impl Cat for E2 {
    fn check_value(&self, node: u8) {
        let n = crate::vsrc::node(node);
        let t = match member(&n, 0) {
            Some(k) => crate::vsrc::node(k),
            None => {
                assert!(false, "C10: a variant was produced although the tag is absent");
                return;
            }
        };
        assert!(t.kind == K_STR, "C10: a variant was produced although the tag is not a string");
        match self {
            E2::A { f_x } => {
                assert!(t.s == 1, "C10: the variant chosen is not the one whose effective name equals the tag");
                filled!(*f_x, &n, 3);
            }
            E2::B { f_x, g } => {
                assert!(t.s == 2, "C10: the variant chosen is not the one whose effective name equals the tag");
                filled!(*f_x, &n, 4);
                filled_or!(*g, &n, 5, 2);
            }
        }
    }
}

// ================================================================== E3
// unit-only enum read from a string; rename_all lowercase, rename
pub const E3_TAB: [&str; 6] = ["aa", "Q", "cc", "Aa", "bb", "AA"];
#[derive(Deserr, Debug, PartialEq)]
#[deserr(rename_all = lowercase)]
pub enum E3 {
    Aa,
    #[deserr(rename = "Q")]
    Bb,
    Cc,
}
impl Model for E3 {
    fn expect(node: u8, loc: &Loc, exp: &mut Exp) {
        let n = crate::vsrc::node(node);
        if n.kind != K_STR {
            exp.push(tagged(kind_err(&n, loc, &[K_STR]), T_C10));
        } else if n.s > 2 {
            exp.push(tagged(unknown_value(loc, n.s, &[0, 1, 2]), T_C10));
        }
    }
    fn matches(&self, node: u8) -> bool {
        let n = crate::vsrc::node(node);
        n.kind == K_STR
            && match self {
                E3::Aa => n.s == 0,
                E3::Bb => n.s == 1,
                E3::Cc => n.s == 2,
            }
    }
}
impl Cat for E3 {
    fn check_value(&self, node: u8) {
        assert!(self.matches(node), "C10: the variant chosen is not the one whose effective name equals the string");
    }
}

// ================================================================== N1
// nesting: struct in struct, Vec field -> locations of depth 2 and 3
pub const N1_TAB: [&str; 5] = ["in", "l", "p", "q", "zz"];
#[derive(Deserr, Debug, PartialEq)]
#[deserr(deny_unknown_fields)]
pub struct In {
    pub p: u8,
    #[deserr(default)]
    pub q: u8,
}
impl Model for In {
    fn expect(node: u8, loc: &Loc, exp: &mut Exp) {
        let n = crate::vsrc::node(node);
        if !want_map(&n, loc, exp) {
            return;
        }
        field::<u8>(&n, loc, 2, Miss::Report, exp);
        field::<u8>(&n, loc, 3, Miss::HasDefault, exp);
        unknown(&n, loc, &[2, 3], 255, Deny::Default, exp);
    }
    fn matches(&self, node: u8) -> bool {
        let n = crate::vsrc::node(node);
        n.kind == K_MAP && val(&self.p, &n, 2) == Some(true) && val(&self.q, &n, 3).unwrap_or(self.q == 0)
    }
}
#[derive(Deserr, Debug, PartialEq)]
pub struct N1 {
    #[deserr(rename = "in")]
    pub inner: In,
    pub l: Vec<u8>,
}
impl Model for N1 {
    fn expect(node: u8, loc: &Loc, exp: &mut Exp) {
        let n = crate::vsrc::node(node);
        if !want_map(&n, loc, exp) {
            return;
        }
        field::<In>(&n, loc, 0, Miss::Report, exp);
        field::<Vec<u8>>(&n, loc, 1, Miss::Report, exp);
    }
    fn matches(&self, node: u8) -> bool {
        let n = crate::vsrc::node(node);
        n.kind == K_MAP && val(&self.inner, &n, 0) == Some(true) && val(&self.l, &n, 1) == Some(true)
    }
}
impl Cat for N1 {
    fn check_value(&self, node: u8) {
        let n = crate::vsrc::node(node);
        filled!(self.inner, &n, 0);
        filled!(self.l, &n, 1);
    }
}

// ================================================================== E0
// the smallest internally tagged enum (cheap two-run harnesses: C15)
pub const E0_TAB: [&str; 4] = ["t", "A", "B", "x"];
#[derive(Deserr, Debug, PartialEq)]
#[deserr(tag = "t")]
pub enum E0 {
    A,
    B { x: u8 },
}
impl Model for E0 {
    fn expect(node: u8, loc: &Loc, exp: &mut Exp) {
        let n = crate::vsrc::node(node);
        let t = tag_of(&n, loc, 0, exp);
        if t == 255 {
            return;
        }
        match t {
            1 => {}
            2 => field::<u8>(&n, loc, 3, Miss::Report, exp),
            _ => exp.push(tagged(unexp(loc), T_C10)),
        }
    }
    fn matches(&self, node: u8) -> bool {
        let n = crate::vsrc::node(node);
        if n.kind != K_MAP {
            return false;
        }
        let t = match member(&n, 0) {
            Some(k) => crate::vsrc::node(k),
            None => return false,
        };
        if t.kind != K_STR {
            return false;
        }
        match self {
            E0::A => t.s == 1,
            E0::B { x } => t.s == 2 && val(x, &n, 3) == Some(true),
        }
    }
}
impl Cat for E0 {
    fn check_value(&self, node: u8) {
        assert!(self.matches(node), "C10: the variant chosen is not the one whose effective name equals the tag");
    }
}
