//! C19 — value pointers record the path that was pushed.
use deserr::{ValuePointerComponent, ValuePointerRef};

pub const KEYS: [&str; 3] = ["a", "b", "c"];

#[derive(Clone, Copy)]
pub struct Step {
    pub is_key: bool,
    pub key: u8,
    pub index: usize,
}

#[cfg(kani)]
fn any_step() -> Step {
    let is_key: bool = kani::any();
    let key: u8 = kani::any();
    kani::assume(key < 3);
    let index: usize = kani::any();
    Step { is_key, key, index }
}

fn key_of(k: u8) -> &'static str {
    match k {
        0 => KEYS[0],
        1 => KEYS[1],
        _ => KEYS[2],
    }
}

fn push<'a>(p: &'a ValuePointerRef<'a>, s: Step) -> ValuePointerRef<'a> {
    if s.is_key {
        p.push_key(key_of(s.key))
    } else {
        p.push_index(s.index)
    }
}

/// expected first / last key steps
fn spec_first(steps: &[Step]) -> Option<u8> {
    let mut i = 0;
    while i < steps.len() {
        if steps[i].is_key {
            return Some(steps[i].key);
        }
        i += 1;
    }
    None
}
fn spec_last(steps: &[Step]) -> Option<u8> {
    let mut i = steps.len();
    while i > 0 {
        i -= 1;
        if steps[i].is_key {
            return Some(steps[i].key);
        }
    }
    None
}

fn same_str(got: Option<&str>, want: Option<u8>) -> bool {
    match (got, want) {
        (None, None) => true,
        (Some(g), Some(w)) => {
            let k = key_of(w);
            // must be the very string that was pushed
            g.as_ptr() == k.as_ptr() && g.len() == k.len()
        }
        _ => false,
    }
}

pub fn check_queries(p: &ValuePointerRef, steps: &[Step]) {
    assert!(p.is_origin() == steps.is_empty(), "C19: is_origin iff no step");
    assert!(same_str(p.first_field(), spec_first(steps)), "C19: first_field");
    assert!(same_str(p.last_field(), spec_last(steps)), "C19: last_field");
}

pub fn check_owned(p: &ValuePointerRef, steps: &[Step]) {
    let owned = p.to_owned();
    assert!(owned.path.len() == steps.len(), "C19: to_owned length");
    let mut i = 0;
    while i < steps.len() {
        match &owned.path[i] {
            ValuePointerComponent::Key(s) => {
                assert!(steps[i].is_key, "C19: to_owned step kind");
                let b = s.as_bytes();
                assert!(b.len() == 1 && b[0] == key_of(steps[i].key).as_bytes()[0], "C19: to_owned key");
            }
            ValuePointerComponent::Index(n) => {
                assert!(!steps[i].is_key, "C19: to_owned step kind");
                assert!(*n == steps[i].index, "C19: to_owned index");
            }
        }
        i += 1;
    }
    std::mem::forget(owned);
}

macro_rules! path_harness {
    ($name:ident, $n:tt, $unw:expr, $body:ident) => {
        #[cfg(kani)]
        #[kani::proof]
        #[kani::unwind($unw)]
        pub fn $name() {
            let steps: [Step; $n] = core::array::from_fn(|_| any_step());
            let p0 = ValuePointerRef::Origin;
            path_harness!(@go $n, p0, steps, 0, $body);
        }
    };
    (@go 0, $p:ident, $steps:ident, $i:expr, $body:ident) => {
        $body(&$p, &$steps[..]);
        kani::cover!(true, "reached");
    };
    (@go 1, $p:ident, $steps:ident, $i:expr, $body:ident) => { let q = push(&$p, $steps[$i]); path_harness!(@go 0, q, $steps, $i+1, $body); };
    (@go 2, $p:ident, $steps:ident, $i:expr, $body:ident) => { let q = push(&$p, $steps[$i]); path_harness!(@go 1, q, $steps, $i+1, $body); };
    (@go 3, $p:ident, $steps:ident, $i:expr, $body:ident) => { let q = push(&$p, $steps[$i]); path_harness!(@go 2, q, $steps, $i+1, $body); };
    (@go 4, $p:ident, $steps:ident, $i:expr, $body:ident) => { let q = push(&$p, $steps[$i]); path_harness!(@go 3, q, $steps, $i+1, $body); };
    (@go 5, $p:ident, $steps:ident, $i:expr, $body:ident) => { let q = push(&$p, $steps[$i]); path_harness!(@go 4, q, $steps, $i+1, $body); };
    (@go 6, $p:ident, $steps:ident, $i:expr, $body:ident) => { let q = push(&$p, $steps[$i]); path_harness!(@go 5, q, $steps, $i+1, $body); };
}

path_harness!(c19_q_q0, 0, 2, check_queries);
path_harness!(c19_q_q1, 1, 3, check_queries);
path_harness!(c19_q_q2, 2, 4, check_queries);
path_harness!(c19_q_q3, 3, 5, check_queries);
path_harness!(c19_q_q4, 4, 6, check_queries);
path_harness!(c19_q_q5, 5, 7, check_queries);
path_harness!(c19_q_q6, 6, 8, check_queries);
path_harness!(c19_q_o0, 0, 2, check_owned);
path_harness!(c19_q_o1, 1, 3, check_owned);
path_harness!(c19_q_o2, 2, 4, check_owned);
path_harness!(c19_q_o3, 3, 5, check_owned);
path_harness!(c19_t_o4, 4, 6, check_owned);
path_harness!(c19_t_o5, 5, 7, check_owned);
path_harness!(c19_t_o6, 6, 8, check_owned);
