#!/usr/bin/env python3-vt
"""E2 — MIR -> SMT presence encoder for the derive's attribute decision logic (C16).

Kani cannot compile the derive crate (ICE on syn/proc-macro2), and token streams
cannot be symbolic.  What is decided here is the *decision logic*: the loop-free
functions FieldAttributesInfo::merge, ContainerAttributesInfo::merge,
VariantAttributesInfo::merge and validate_container_attributes are symbolically
executed from the nightly MIR dump of /repo's current derive/src under a PRESENCE
ABSTRACTION: every Option<..>/TagType place is a Boolean ("is Some" / "is
Internal"), every other value is opaque, calls return opaque values, switchInt on
discriminants becomes path conditions.  The per-function path summaries are
composed (default -> merge(group 1) -> merge(group 2) [-> merge(group 3)] ->
validate) and the rejection rules of the property are asserted; z3 decides every
rule for ALL presence combinations at once (cvc5 cross-checks the same SMT-LIB).

A satisfying assignment is turned into a concrete derive input and compiled with
`cargo check` against /repo (replay); only an input that the derive really accepts
counts as a violation.
"""
import json, os, re, subprocess, sys, time, shutil, hashlib
import z3

REPO = "/repo"
CACHE = "/root/.cache/verif-mir"


class Untranslatable(Exception):
    pass


# ----------------------------------------------------------------- MIR dump

def dump_mir(log):
    src = os.path.join(CACHE, "repo")
    os.makedirs(CACHE, exist_ok=True)
    subprocess.run(["rsync", "-a", "--delete", "--exclude", "target", "--exclude", ".git", REPO + "/", src + "/"], check=True)
    env = dict(os.environ, CARGO_NET_OFFLINE="true", CARGO_TARGET_DIR=os.path.join(CACHE, "target"))
    env.pop("RUSTUP_TOOLCHAIN", None)
    # force a re-run of rustc (an up-to-date crate prints nothing)
    os.utime(os.path.join(src, "derive", "src", "lib.rs"), None)
    p = subprocess.run(["cargo", "+nightly", "rustc", "--offline", "--lib", "--", "-Zunpretty=mir", "-C", "debug-assertions=off"],
                       cwd=os.path.join(src, "derive"), env=env, capture_output=True, text=True)
    open(log, "w").write(p.stderr)
    if p.returncode != 0 or "fn " not in p.stdout:
        raise Untranslatable("MIR dump failed: " + p.stderr[-2000:])
    return p.stdout


def split_functions(mir):
    fns = {}
    cur = None
    buf = []
    for line in mir.splitlines():
        if line.startswith("fn ") and line.rstrip().endswith("{"):
            cur = line
            buf = [line]
        elif cur is not None:
            buf.append(line)
            if line == "}":
                fns[cur] = buf
                cur = None
    return fns


def find_fn(fns, pattern):
    hits = [k for k in fns if re.search(pattern, k)]
    if len(hits) != 1:
        raise Untranslatable("expected exactly one MIR function matching %r, found %d" % (pattern, len(hits)))
    return hits[0], fns[hits[0]]


# ----------------------------------------------------------------- place parsing

def parse_place(s, i=0):
    """returns (key, type_of_outermost_projection or None, next_index)"""
    if s[i] == "_":
        m = re.match(r"_\d+", s[i:])
        return m.group(0), None, i + len(m.group(0))
    if s[i] != "(":
        raise Untranslatable("place syntax: " + s[i:i + 40])
    if s[i + 1] == "*":
        k, t, j = parse_place(s, i + 2)
        if s[j] != ")":
            raise Untranslatable("deref syntax: " + s[i:i + 60])
        return "(*%s)" % k, None, j + 1
    k, t, j = parse_place(s, i + 1)
    if s[j] == ".":
        m = re.match(r"\.(\d+): ", s[j:])
        if not m:
            raise Untranslatable("field syntax: " + s[j:j + 40])
        idx = m.group(1)
        p = j + len(m.group(0))
        depth = 0
        q = p
        while True:
            c = s[q]
            if c == "(":
                depth += 1
            elif c == ")":
                if depth == 0:
                    break
                depth -= 1
            q += 1
        return "%s.%s" % (k, idx), s[p:q], q + 1
    if s[j:j + 4] == " as ":
        m = re.match(r" as (\w+)\)", s[j:])
        if not m:
            raise Untranslatable("downcast syntax: " + s[j:j + 40])
        return "%s#%s" % (k, m.group(1)), None, j + len(m.group(0))
    raise Untranslatable("place syntax: " + s[i:i + 60])


def place_of(text):
    text = text.strip()
    k, t, j = parse_place(text, 0)
    if text[j:].strip():
        raise Untranslatable("trailing text after place: " + text)
    return k, t


def type_class(t):
    if t is None:
        return None
    t = t.strip()
    if t.startswith("std::option::Option<") or t.startswith("Option<"):
        return "option"
    if t.endswith("TagType"):
        return "tag"
    if t == "syn::Data":
        return "data"
    if t == "bool":
        return "bool"
    return "other"


# ----------------------------------------------------------------- symbolic execution

class Fn:
    def __init__(self, header, lines):
        self.header = header
        self.locals = {}
        self.blocks = {}
        m = re.match(r"fn .*?\((.*)\) -> ", header)
        for a in re.finditer(r"(_\d+): ([^,]+(?:<[^>]*>)?[^,]*)", m.group(1)):
            self.locals[a.group(1)] = a.group(2).strip()
        cur = None
        for l in lines[1:]:
            s = l.strip()
            m = re.match(r"let (?:mut )?(_\d+): (.*);$", s)
            if m:
                self.locals[m.group(1)] = m.group(2)
                continue
            m = re.match(r"(bb\d+)(?: \(cleanup\))?: \{$", s)
            if m:
                cur = m.group(1)
                self.blocks[cur] = []
                continue
            if s == "}" or not s or cur is None:
                if s == "}":
                    cur = None if l.startswith("    }") and not l.startswith("     ") else cur
                continue
            if s.startswith(("debug ", "scope ", "let ")):
                continue
            self.blocks[cur].append(s)


def is_input_rooted(key):
    return bool(re.match(r"^(\(\*_[12]\)|_[12])(\.|$)", key))


class Exec:
    def __init__(self, fn, tag):
        self.fn = fn
        self.tag = tag
        self.inputs = {}
        self.paths = []
        self.solver = z3.Solver()
        self.queries = 0

    def inp_bool(self, key):
        if key not in self.inputs:
            self.inputs[key] = z3.Bool("%s|%s" % (self.tag, key))
        return self.inputs[key]

    def inp_int(self, key):
        if key not in self.inputs:
            self.inputs[key] = z3.Int("%s|%s" % (self.tag, key))
        return self.inputs[key]

    def canon(self, st, key, ty):
        """resolve a dereference of a local that holds a reference to a known place"""
        for _ in range(8):
            m = re.match(r"^\(\*(_\d+)\)(.*)$", key)
            if not m:
                break
            v = st.get(m.group(1))
            if not v or v[0] != "ref":
                break
            if m.group(2) == "" and ty is None:
                ty = v[2]
            key = v[1] + m.group(2)
        return key, ty

    def read(self, st, key, ty):
        key, ty = self.canon(st, key, ty)
        if key in st:
            return st[key]
        cls = type_class(ty)
        if is_input_rooted(key):
            if cls in ("option", "tag"):
                return ("p", self.inp_bool(key))
            if cls == "data":
                return ("i", self.inp_int(key))
            return ("o",)
        return ("o",)

    def operand(self, st, text):
        text = text.strip()
        m = re.match(r"const (true|false)$", text)
        if m:
            return ("c", 1 if m.group(1) == "true" else 0)
        m = re.match(r"const (-?\d+)_?\w*$", text)
        if m:
            return ("c", int(m.group(1)))
        if text.startswith("const "):
            return ("o",)
        m = re.match(r"(copy|move) (.*)$", text)
        if m:
            k, t = place_of(m.group(2))
            if t is None and k in self.fn.locals:
                t = self.fn.locals[k]
            return self.read(st, k, t)
        raise Untranslatable("operand: " + text)

    def rvalue(self, st, text):
        text = text.strip()
        if re.match(r"(copy|move|const) ", text):
            return self.operand(st, text)
        m = re.match(r"discriminant\((.*)\)$", text)
        if m:
            k, t = place_of(m.group(1))
            if t is None and k in self.fn.locals:
                t = self.fn.locals[k]
            k, t = self.canon(st, k, t)
            cls = type_class(t)
            v = self.read(st, k, t)
            if cls == "option":
                if v[0] != "p":
                    raise Untranslatable("discriminant of an Option whose presence is unknown: " + k)
                return ("i", z3.If(v[1], z3.IntVal(1), z3.IntVal(0)))
            if cls == "tag":
                if v[0] != "p":
                    raise Untranslatable("discriminant of a TagType whose variant is unknown: " + k)
                return ("i", z3.If(v[1], z3.IntVal(0), z3.IntVal(1)))
            if cls == "data":
                return v
            raise Untranslatable("discriminant of unsupported type %r at %s" % (t, k))
        if re.match(r"Option::<.*>::Some\(", text):
            return ("p", z3.BoolVal(True))
        if re.match(r"Option::<.*>::None$", text):
            return ("p", z3.BoolVal(False))
        if re.match(r"(attribute_parser::)?TagType::Internal\(", text):
            return ("p", z3.BoolVal(True))
        if re.match(r"(attribute_parser::)?TagType::External$", text):
            return ("p", z3.BoolVal(False))
        m = re.match(r"Result::<.*>::(Ok|Err)\(", text)
        if m:
            return ("r", m.group(1))
        m = re.match(r"&(?:mut )?(.*)$", text)
        if m:
            try:
                k, t = place_of(m.group(1))
                k, t = self.canon(st, k, t)
                return ("ref", k, t)
            except Untranslatable:
                return ("o",)
        return ("o",)

    def call(self, st, callee, args):
        m = re.match(r"Option::<.*>::(is_some|is_none)$", callee)
        if m:
            a = self.operand(st, args)
            if a[0] != "ref":
                raise Untranslatable("is_some on a non-reference")
            v = self.read(st, a[1], a[2])
            if v[0] != "p":
                raise Untranslatable("is_some on unknown presence: " + a[1])
            e = v[1] if m.group(1) == "is_some" else z3.Not(v[1])
            return ("i", z3.If(e, z3.IntVal(1), z3.IntVal(0)))
        return ("o",)

    def feasible(self, conds):
        self.queries += 1
        self.solver.push()
        for c in conds:
            self.solver.add(c)
        r = self.solver.check()
        self.solver.pop()
        return r == z3.sat

    def run(self):
        work = [("bb0", {}, [])]
        steps = 0
        while work:
            bb, st, conds = work.pop()
            while True:
                steps += 1
                if steps > 200000:
                    raise Untranslatable("path explosion / loop in " + self.fn.header)
                stmts = self.fn.blocks.get(bb)
                if stmts is None:
                    raise Untranslatable("missing block " + bb)
                nxt = None
                for s in stmts:
                    s = s.rstrip(";")
                    if s.startswith(("StorageLive", "StorageDead", "nop", "FakeRead", "PlaceMention", "AscribeUserType", "Retag", "Coverage", "ConstEvalCounter")):
                        continue
                    if s == "return":
                        r = st.get("_0")
                        if not r or r[0] != "r":
                            raise Untranslatable("return without a Result in _0")
                        self.paths.append((list(conds), r[1], dict(st)))
                        nxt = "END"
                        break
                    if s in ("unreachable", "resume", "unwind continue"):
                        nxt = "END"
                        break
                    m = re.match(r"goto -> (bb\d+)$", s)
                    if m:
                        nxt = m.group(1)
                        break
                    m = re.match(r"drop\(.*\) -> \[return: (bb\d+)", s)
                    if m:
                        nxt = m.group(1)
                        break
                    m = re.match(r"assert\(.*\) -> \[success: (bb\d+)", s)
                    if m:
                        nxt = m.group(1)
                        break
                    m = re.match(r"switchInt\((.*)\) -> \[(.*)\]$", s)
                    if m:
                        v = self.operand(st, m.group(1))
                        targets = [t.strip() for t in m.group(2).split(",")]
                        listed = []
                        other = None
                        for t in targets:
                            a, b = t.split(": ")
                            if a == "otherwise":
                                other = b
                            else:
                                listed.append((int(a), b))
                        if v[0] == "c":
                            hit = [b for a, b in listed if a == v[1]]
                            nxt = hit[0] if hit else other
                            break
                        if v[0] != "i":
                            raise Untranslatable("switchInt on an opaque value in %s: %s" % (bb, s))
                        succ = []
                        for a, b in listed:
                            succ.append((b, v[1] == a))
                        if other is not None:
                            succ.append((other, z3.And([v[1] != a for a, _ in listed]) if listed else z3.BoolVal(True)))
                        feas = [(b, c) for b, c in succ if self.feasible(conds + [c])]
                        if not feas:
                            nxt = "END"
                            break
                        for b, c in feas[1:]:
                            work.append((b, dict(st), conds + [c]))
                        conds = conds + [feas[0][1]]
                        nxt = feas[0][0]
                        break
                    # call with destination
                    m = re.match(r"(.*?) = (.*?)\((.*)\) -> \[return: (bb\d+)", s)
                    if m and not re.match(r"(Option::<.*>::Some|Result::<.*>::(Ok|Err)|\w*(::)?TagType::Internal)$", m.group(2).strip()):
                        dst, _ = place_of(m.group(1))
                        st[dst] = self.call(st, m.group(2).strip(), m.group(3))
                        nxt = m.group(4)
                        break
                    m = re.match(r"(.*?) = (.*?)\((.*)\) -> unwind", s)
                    if m:
                        raise Untranslatable("diverging call: " + s)
                    # plain assignment
                    m = re.match(r"(\(.*\)|_\d+) = (.*)$", s)
                    if m:
                        dst, _ = place_of(m.group(1))
                        dst, _ = self.canon(st, dst, None)
                        st[dst] = self.rvalue(st, m.group(2))
                        continue
                    m = re.match(r".*\) -> \[return: (bb\d+)", s)
                    if m:
                        nxt = m.group(1)
                        break
                    raise Untranslatable("statement form not understood in %s: %s" % (bb, s))
                if nxt is None:
                    raise Untranslatable("block without terminator: " + bb)
                if nxt == "END":
                    break
                bb = nxt
        return self


class Summary:
    """is_err and the presence of every written (*_1).K as functions of the inputs."""

    def __init__(self, ex, self_fields):
        self.inputs = ex.inputs
        self.n_paths = len(ex.paths)
        self.queries = ex.queries
        self.err = z3.Or([z3.And(c) if c else z3.BoolVal(True) for c, r, st in ex.paths if r == "Err"] or [z3.BoolVal(False)])
        self.out = {}
        for k in self_fields:
            key = "(*_1).%d" % k
            terms = []
            for c, r, st in ex.paths:
                if r != "Ok":
                    continue
                v = st.get(key)
                if v is None:
                    val = ex.inp_bool(key)
                elif v[0] == "p":
                    val = v[1]
                else:
                    raise Untranslatable("field %s written with a value whose presence is unknown" % key)
                terms.append(z3.And((c if c else []) + [val]))
            self.out[k] = z3.Or(terms) if terms else z3.BoolVal(False)
        self.inputs = ex.inputs

    def apply(self, selfv, otherv, extra=None):
        """selfv / otherv: {field index: Bool expr}; returns (err, {field: expr})"""
        sub = []
        for key, var in self.inputs.items():
            m = re.match(r"^\(\*_1\)\.(\d+)$", key)
            if m:
                sub.append((var, selfv[int(m.group(1))]))
                continue
            m = re.match(r"^_2\.(\d+)$", key)
            if m:
                sub.append((var, otherv[int(m.group(1))]))
                continue
            if extra and key in extra:
                sub.append((var, extra[key]))
                continue
            raise Untranslatable("unexpected input place " + key)
        err = z3.substitute(self.err, *sub) if sub else self.err
        out = {k: (z3.substitute(e, *sub) if sub else e) for k, e in self.out.items()}
        return err, out


def struct_fields(src, name):
    m = re.search(r"pub struct %s \{(.*?)\n\}" % name, src, re.S)
    if not m:
        raise Untranslatable("struct %s not found in attribute_parser.rs" % name)
    fields = []
    for line in m.group(1).splitlines():
        line = line.strip()
        mm = re.match(r"(?:pub )?(\w+): (.*),$", line)
        if mm and not line.startswith("//"):
            fields.append((mm.group(1), mm.group(2)))
    return fields


def parser_sets_span(fns, struct, idx):
    """does `impl Parse for <struct>` ever assign Some(..) to field idx?  (coupling assumption A1)"""
    hits = [k for k in fns if re.search(r"<impl at derive/src/attribute_parser.rs.*>::parse\(", k) and ("Result<%s, syn::Error>" % struct) in k]
    if len(hits) != 1:
        raise Untranslatable("Parse impl of %s not found (%d)" % (struct, len(hits)))
    body = "\n".join(fns[hits[0]])
    return bool(re.search(r"\(_\d+\.%d: std::option::Option<proc_macro2::Span>\) = " % idx, body))


def analyse(mir, log=None):
    fns = split_functions(mir)
    src = open(os.path.join(REPO, "derive/src/attribute_parser.rs")).read()
    res = {"functions": [], "paths": {}, "queries": 0}
    levels = {}
    for struct, pat in (("ContainerAttributesInfo", r"::merge\(_1: &mut ContainerAttributesInfo, _2: ContainerAttributesInfo\)"),
                        ("FieldAttributesInfo", r"::merge\(_1: &mut FieldAttributesInfo, _2: FieldAttributesInfo\)"),
                        ("VariantAttributesInfo", r"::merge\(_1: &mut VariantAttributesInfo, _2: VariantAttributesInfo\)")):
        hdr, lines = find_fn(fns, pat)
        fields = struct_fields(src, struct)
        names = [f for f, _ in fields]
        pres = [i for i, (f, t) in enumerate(fields) if t.startswith("Option<") or t == "TagType"]
        ex = Exec(Fn(hdr, lines), struct).run()
        summ = Summary(ex, pres)
        res["functions"].append(hdr)
        res["paths"][struct + "::merge"] = summ.n_paths
        res["queries"] += summ.queries
        spans = {}
        for i, (f, t) in enumerate(fields):
            if f.endswith("_span"):
                spans[f[:-5]] = (i, parser_sets_span(fns, struct, i))
        levels[struct] = dict(fields=names, types=[t for _, t in fields], pres=pres, summary=summ, spans=spans)
    hdr, lines = find_fn(fns, r"^fn validate_container_attributes\(")
    exv = Exec(Fn(hdr, lines), "validate").run()
    cont = levels["ContainerAttributesInfo"]
    verr = z3.Or([z3.And(c) if c else z3.BoolVal(True) for c, r, st in exv.paths if r == "Err"] or [z3.BoolVal(False)])
    res["functions"].append(hdr)
    res["paths"]["validate_container_attributes"] = len(exv.paths)
    res["queries"] += exv.queries
    levels["validate"] = dict(err=verr, inputs=exv.inputs)
    return levels, res


def group_vars(level, g):
    """presence bits of one parsed #[deserr(..)] group: a value bit per single-valued attribute; the span bits
    follow assumption A1 (span present iff the Parse impl records it and the value is present)."""
    vals = {}
    bits = {}
    for i in level["pres"]:
        name = level["fields"][i]
        if name.endswith("_span"):
            continue
        bits[name] = z3.Bool("g%d.%s" % (g, name))
        vals[i] = bits[name]
    for attr, (i, parser_sets) in level["spans"].items():
        vals[i] = bits[attr] if parser_sets else z3.BoolVal(False)
    return bits, vals


def rules(levels, ngroups):
    """list of dicts: id, text, level, premise, rejected (violation = premise & !rejected; witness = premise & rejected)"""
    out = []
    for struct in ("ContainerAttributesInfo", "FieldAttributesInfo", "VariantAttributesInfo"):
        lv = levels[struct]
        summ = lv["summary"]
        state = {i: z3.BoolVal(False) for i in lv["pres"]}
        groups = []
        any_err = z3.BoolVal(False)
        for g in range(ngroups):
            bits, vals = group_vars(lv, g)
            groups.append(bits)
            err, new = summ.apply(state, vals)
            any_err = z3.Or(any_err, err)
            state = new
        attrs = list(groups[0].keys())
        short = struct.replace("AttributesInfo", "").lower()

        def add(rid, text, premise, rejected, extra=None):
            out.append(dict(id=rid, text=text, level=short, premise=premise, rejected=rejected, groups=groups, extra=extra or {}))

        for a in attrs:
            twice = z3.Or([z3.And(groups[i][a], groups[j][a]) for i in range(ngroups) for j in range(i + 1, ngroups)])
            add("%s.dup.%s" % (short, a), "`%s` given in two #[deserr] groups of a %s must be rejected" % (a, short), twice, any_err)
        if "from" in attrs and "try_from" in attrs:
            both = z3.And(z3.Or([g["from"] for g in groups]), z3.Or([g["try_from"] for g in groups]))
            add("%s.from_try_from" % short, "`from` together with `try_from` on a %s must be rejected" % short, both, any_err)
        # nothing silently dropped: after successful merges an attribute is set iff some group gave it
        for i in lv["pres"]:
            name = lv["fields"][i]
            if name.endswith("_span"):
                continue
            some = z3.Or([g[name] for g in groups])
            # encoded as: premise = (final presence differs from `some`), rejected = any_err
            add("%s.kept.%s" % (short, name), "after successful merges `%s` is set iff some group gave it (nothing dropped, nothing invented)" % name,
                state[i] != some, any_err)
            out[-1]["witness"] = z3.And(z3.Not(any_err), some, state[i])
        if struct == "ContainerAttributesInfo":
            v = levels["validate"]
            sub = []
            is_struct = z3.Bool("is_struct")
            for key, var in v["inputs"].items():
                m = re.match(r"^\(\*_1\)\.(\d+)$", key)
                if m:
                    sub.append((var, state[int(m.group(1))]))
                elif key == "(*_2).4":
                    sub.append((var, z3.If(is_struct, z3.IntVal(0), z3.IntVal(1))))
                else:
                    raise Untranslatable("unexpected input of validate_container_attributes: " + key)
            verr = z3.substitute(v["err"], *sub)
            rejected = z3.Or(any_err, verr)
            anyg = lambda a: z3.Or([g[a] for g in groups])
            for a in ("rename_all", "tag", "deny_unknown_fields"):
                add("container.try_from_with.%s" % a, "container `try_from` together with `%s` must be rejected" % a,
                    z3.And(anyg("try_from"), anyg(a)), rejected, {"is_struct": is_struct})
            add("container.tag_on_struct", "`tag` on a struct must be rejected", z3.And(anyg("tag"), is_struct), rejected, {"is_struct": is_struct})
    return out


def decide(formula, timeout_ms=60000):
    s = z3.Solver()
    s.set("timeout", timeout_ms)
    s.add(formula)
    t0 = time.time()
    r = s.check()
    dt = time.time() - t0
    smt = "(set-logic ALL)\n" + s.to_smt2()
    model = None
    if r == z3.sat:
        m = s.model()
        model = {d.name(): z3.is_true(m[d]) for d in m.decls()}
    return str(r), model, dt, smt


def cross_check(smt):
    try:
        p = subprocess.run(["cvc5", "--lang", "smt2"], input=smt, capture_output=True, text=True, timeout=120)
        out = p.stdout + p.stderr
        if "(error" in out or "error" in out.lower() and "unsat" not in out and "sat" not in out:
            return "error"
        for tok in out.split():
            if tok in ("sat", "unsat", "unknown"):
                return tok
        return "error"
    except Exception as e:
        return "error"


# ----------------------------------------------------------------- replay: concrete derive input

CONT = {"rename_all": "rename_all = camelCase", "err_ty": "error = deserr::errors::JsonError", "tag": 'tag = "t"',
        "deny_unknown_fields": "deny_unknown_fields", "from": "from(u8) = mk_from", "try_from": "try_from(u8) = mk_try -> std::convert::Infallible",
        "validate": "validate = vfn -> std::convert::Infallible"}
FIELD = {"rename": 'rename = "x"', "default": "default", "missing_field_error": "missing_field_error = mfe", "error": "error = deserr::errors::JsonError",
         "map": "map = mapf", "from": "from(u8) = ffrom", "try_from": "try_from(u8) = ftry -> std::convert::Infallible"}
VAR = {"rename_all": "rename_all = camelCase", "rename": 'rename = "x"'}

DERIVE_MSGS = ("is defined twice", "can't be used together", "Cannot use the", "aren't supported", "not supported yet", "Unknown deserr", "Expected end of attribute", "rename_all can either")

PRELUDE = """#![allow(dead_code, unused)]
use deserr::{Deserr, DeserializeError, ErrorKind, ValuePointerRef, errors::JsonError};
use std::convert::Infallible;
fn vfn(t: T, _: ValuePointerRef) -> Result<T, Infallible> { Ok(t) }
fn mfe(_: &str, l: ValuePointerRef) -> JsonError { deserr::take_cf_content(JsonError::error::<Infallible>(None, ErrorKind::Unexpected { msg: String::new() }, l)) }
fn mapf(x: u8) -> u8 { x }
fn ffrom(x: u8) -> u8 { x }
fn ftry(x: u8) -> Result<u8, Infallible> { Ok(x) }
"""


def derive_input(rule, model):
    lvl = rule["level"]
    groups = []
    for g, bits in enumerate(rule["groups"]):
        table = CONT if lvl == "container" else FIELD if lvl == "field" else VAR
        items = [table[a] for a in bits if model.get("g%d.%s" % (g, a))]
        if items:
            groups.append("#[deserr(%s)]" % ", ".join(items))
    gtxt = "\n".join(groups)
    if lvl == "container":
        is_struct = model.get("is_struct", True) if "is_struct" in rule["extra"] else not any(model.get("g%d.tag" % g) for g in range(len(rule["groups"])))
        if is_struct:
            item = "struct T { a: u8 }\nfn mk_from(x: u8) -> T { T { a: x } }\nfn mk_try(x: u8) -> Result<T, Infallible> { Ok(T { a: x }) }"
        else:
            item = "enum T { A, B }\nfn mk_from(x: u8) -> T { T::A }\nfn mk_try(x: u8) -> Result<T, Infallible> { Ok(T::A) }"
        body = "#[derive(Deserr)]\n%s\n%s\n" % (gtxt, item)
    elif lvl == "field":
        body = "#[derive(Deserr)]\n#[deserr(error = JsonError)]\nstruct T {\n%s\n    a: u8,\n}\n" % gtxt
    else:
        body = "#[derive(Deserr)]\nenum T {\n%s\n    Aa,\n    Bb,\n}\n" % gtxt
    return PRELUDE + body + "fn main() {}\n"


def compile_input(text, name):
    d = os.path.join(CACHE, "replay")
    os.makedirs(os.path.join(d, "src", "bin"), exist_ok=True)
    open(os.path.join(d, "Cargo.toml"), "w").write('[package]\nname = "c16replay"\nversion = "0.0.0"\nedition = "2021"\n[dependencies]\ndeserr = { path = "/repo" }\n[workspace]\n')
    if not os.path.exists(os.path.join(d, "Cargo.lock")):
        shutil.copy(os.path.join(REPO, "Cargo.lock"), os.path.join(d, "Cargo.lock"))
    for f in os.listdir(os.path.join(d, "src", "bin")):
        os.remove(os.path.join(d, "src", "bin", f))
    open(os.path.join(d, "src", "bin", name + ".rs"), "w").write(text)
    env = dict(os.environ, CARGO_NET_OFFLINE="true", CARGO_TARGET_DIR=os.path.join(CACHE, "replay-target"))
    env.pop("RUSTUP_TOOLCHAIN", None)
    p = subprocess.run(["cargo", "check", "--offline", "--bin", name, "--message-format=short"], cwd=d, env=env, capture_output=True, text=True)
    out = p.stdout + p.stderr
    if p.returncode == 0:
        return "accepted", out
    if any(m in out for m in DERIVE_MSGS) and "panicked" not in out:
        return "rejected-by-derive", out
    return "other-error", out


def load_known(pid):
    res = []
    path = "/verif/known-findings.txt"
    if os.path.exists(path):
        for line in open(path):
            m = re.match(r"finding:\s+property=(\S+)\s+harness=(\S+)\s+assertion=(.+?)\s+::\s+(.*)", line.strip())
            if m and m.group(1) == pid:
                res.append({"harness": m.group(2), "assertion": m.group(3), "text": m.group(4)})
    return res


def main():
    pid = "C16"
    tier = sys.argv[1] if len(sys.argv) > 1 else "quick"
    seed = int(os.environ.get("VERIF_SEED", "0") or 0)
    t0 = time.time()
    ev = {"property_id": pid, "tier": tier, "seed": seed, "level": "model_checking", "coverage": {}, "assumptions": [], "wall_s": 0, "violations": 0}
    os.makedirs("/verif/evidence/replays", exist_ok=True)
    inconclusive, violations, known_hits, samples = [], [], [], []
    solver_s = 0.0
    res = {"functions": [], "paths": {}, "queries": 0}
    nrules = 0
    nontrivial = 0
    replayed = 0
    try:
        mir = dump_mir(os.path.join(CACHE, "mir.err"))
        levels, res = analyse(mir)
        known = load_known(pid)
        for ng in ([2] if tier == "quick" else [2, 3]):
            for rule in rules(levels, ng):
                nrules += 1
                rid = "%s@%dgroups" % (rule["id"], ng)
                r, model, dt, smt = decide(z3.And(rule["premise"], z3.Not(rule["rejected"])))
                solver_s += dt
                wit = rule.get("witness", z3.And(rule["premise"], rule["rejected"]))
                wr, _, wdt, _ = decide(wit)
                solver_s += wdt
                cc = None
                if ng == 2 or r == "sat":
                    cc = cross_check(smt)
                    if cc != r:
                        inconclusive.append((rid, "z3 says %s, cvc5 says %s" % (r, cc)))
                s = {"rule": rid, "text": rule["text"], "z3": r, "cvc5": cc, "witness": wr, "solver_s": round(dt + wdt, 3)}
                if wr != "sat":
                    inconclusive.append((rid, "vacuity witness not satisfiable (%s)" % wr))
                elif r == "unsat":
                    nontrivial += 1
                if r == "unknown":
                    inconclusive.append((rid, "solver answered unknown"))
                if r == "sat":
                    text = derive_input(rule, model)
                    name = re.sub(r"\W", "_", rid)
                    verdict, out = compile_input(text, name)
                    replayed += 1
                    s["assignment"] = sorted(k for k, v in model.items() if v)
                    s["replay"] = verdict
                    rdir = os.path.join("/verif/evidence/replays", "C16-" + name)
                    os.makedirs(rdir, exist_ok=True)
                    open(os.path.join(rdir, "input.rs"), "w").write(text)
                    json.dump({"property": pid, "rule": rid, "text": rule["text"], "assignment": s["assignment"], "replay": verdict,
                               "cargo_check_output": out[-3000:]}, open(os.path.join(rdir, "replay.json"), "w"), indent=1)
                    if verdict == "accepted":
                        hit = [k for k in known if re.search(k["harness"], rid)]
                        if hit:
                            known_hits.append((rid, hit[0]))
                        else:
                            violations.append((rid, os.path.join(rdir, "replay.json"), rule["text"], s["assignment"]))
                    else:
                        inconclusive.append((rid, "model counterexample does not reproduce: cargo check says %s" % verdict))
                samples.append(s)
    except Untranslatable as e:
        inconclusive.append(("encoder", "MIR form not translatable: %s" % e))
    for rid, k in known_hits:
        print("KNOWN-FINDING: property=%s %s [rule %s]" % (pid, k["text"], rid))
    for rid, why in inconclusive:
        print("INCONCLUSIVE property=%s rule=%s %s" % (pid, rid, why))
    for rid, path, text, asg in violations:
        print("  rule violated: %s; derive input with groups %s is accepted by the derive" % (text, asg))
        print("VIOLATION property=%s replay=%s" % (pid, path))
    ev["coverage"] = {
        "evaluations": nrules, "distinct_nontrivial": nontrivial,
        "rule": "one evaluation = one rejection rule of the property decided by z3 over ALL presence combinations of the attribute groups "
                "(2 groups quick; 2 and 3 groups thorough) on the path summaries of the MIR functions; distinct & non-trivial = rule proved "
                "(unsat) AND its vacuity witness (premise & rejection reachable) satisfiable",
        "samples": samples[:80], "engine": "nightly MIR dump -> presence-abstraction symbolic execution (tools/mir_presence.py) -> z3 %s, cvc5 cross-check" % z3.get_version_string(),
        "functions_encoded": res["functions"], "paths_enumerated": res["paths"], "feasibility_queries": res["queries"],
        "bounds": "attribute groups per item: 2 (quick) / 2 and 3 (thorough); no bound on which attributes are present (all combinations in one query per rule)",
        "outside_claim": "everything decided while parsing tokens: unknown attribute names, invalid rename_all value, malformed syntax, duplicates inside ONE #[deserr(...)] for "
                         "container/variant attributes, shape errors (tuple/unit struct, union, unnamed variant data, untagged data enum), panics of the macro",
        "solver_time_s": round(solver_s, 2), "counterexamples_replayed_with_cargo_check": replayed,
        "inconclusive": [{"rule": a, "why": b} for a, b in inconclusive], "known_findings_hit": [{"rule": a, "finding": k["text"]} for a, k in known_hits],
        "exhaustive": False,
    }
    ev["assumptions"] = ["presence abstraction: Option/TagType places are Booleans, everything else opaque; calls return opaque values",
                         "A1: in the parser's output a *_span marker is present iff the Parse impl contains an assignment to it and the attribute is present "
                         "(checked syntactically on the MIR of the Parse impl; counterexamples are replayed with cargo check, so a wrong A1 cannot raise a false alarm)",
                         "rustc nightly's MIR dump reflects the code the stable compiler builds", "z3 / cvc5 are sound"]
    ev["wall_s"] = round(time.time() - t0, 1)
    ev["violations"] = len(violations)
    if not os.environ.get("VERIF_NO_EVIDENCE"):
        json.dump(ev, open("/verif/evidence/C16.json", "w"), indent=1)
    print("[C16 %s] %d rules, %d proved, %d violation(s), %d inconclusive, %d known finding(s), wall %.0fs" %
          (tier, nrules, nontrivial, len(violations), len(inconclusive), len(known_hits), time.time() - t0))
    return 1 if violations else (2 if inconclusive else 0)


if __name__ == "__main__":
    sys.exit(main())
