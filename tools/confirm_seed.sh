#!/bin/bash
# confirm_seed.sh <name> <srcdir>: independently confirm a seeded change:
#  patch applies on /repo HEAD, baseline tests pass with it, demo fails with it and passes without it.
# Works in a scratch worktree outside /repo and /verif, removed afterwards.  Result -> /verif/seeded/<name>/
set -u
name=$1; src=$2
wt=/tmp/cf-$name
export CARGO_TARGET_DIR=/tmp/cf-target CARGO_NET_OFFLINE=true
out=/verif/seeded/$name
mkdir -p $out
git -C /repo worktree remove --force $wt 2>/dev/null
git -C /repo worktree add -q --detach $wt HEAD || exit 3
cd $wt
log=$out/confirm.log; : > $log
if ! git apply $src/patch.diff >>$log 2>&1; then echo "$name: PATCH DOES NOT APPLY"; git -C /repo worktree remove --force $wt; exit 1; fi
echo "== baseline tests with the change" >>$log
cargo test --workspace --no-fail-fast --offline >>$log 2>&1; base=$?
cp $src/demo.rs tests/seed_demo.rs
echo "== demo with the change" >>$log
cargo test --offline --test seed_demo >>$log 2>&1; with=$?
git checkout -q -- src derive
echo "== demo without the change" >>$log
cargo test --offline --test seed_demo >>$log 2>&1; without=$?
cd /; git -C /repo worktree remove --force $wt
cp $src/patch.diff $out/patch.diff; cp $src/demo.rs $out/demo.rs
python3 - "$name" "$src" "$base" "$with" "$without" <<'PY'
import json,sys,subprocess
name,src,base,w,wo=sys.argv[1:6]
try: meta=json.load(open(src+'/meta.json'))
except Exception as e: meta={"note":"agent meta.json unreadable: %s"%e}
head=subprocess.run(['git','-C','/repo','rev-parse','--short','HEAD'],capture_output=True,text=True).stdout.strip()
ok = base=='0' and w!='0' and wo=='0'
json.dump({"name":name,"property":meta.get("property"),"summary":meta.get("summary"),"needs":meta.get("needs"),
 "files_changed":meta.get("files_changed"),"origin":"independent sub-agent given only the property text and a scratch worktree",
 "confirmed_on_repo_head":head,
 "confirmation":{"baseline_suite_with_change_exit":int(base),"demo_with_change_exit":int(w),"demo_without_change_exit":int(wo),
   "commands":["git apply patch.diff","cargo test --workspace --no-fail-fast --offline","cp demo.rs tests/seed_demo.rs; cargo test --offline --test seed_demo","git checkout -- src derive; cargo test --offline --test seed_demo"],
   "confirmed":ok},
 "agent_meta":meta}, open('/verif/seeded/%s/meta.json'%name,'w'), indent=1)
print("%s: baseline=%s demo_with=%s demo_without=%s => %s"%(name,base,w,wo,"CONFIRMED" if ok else "NOT CONFIRMED"))
PY
