#!/usr/bin/env python3
"""gen_catalogue.py --seed S --n N  ->  harness/src/catalogue_gen.rs

Random derive inputs ("programs" quantifier of C07-C09, DESIGN 3.4): flat structs with
random identifier shapes, rename / rename_all / default / default = expr / skip /
deny_unknown_fields in random declaration order, together with their reference
model.  The effective key names are computed HERE (own camelCase / lowercase
implementation), never by convert_case, so a wrong renaming in the derive shows
up as a disagreement.  For every generated type the payload dimension is decided
by the solver (harnesses c02_t_g<i>_m2 / _m3).
"""
import argparse, random, sys, os

TYPES = {
    # rust type: (default-trait literal, explicit default expr or None)
    "u8": ("0", "7"),
    "bool": ("false", "true"),
    "i8": ("0", "-3"),
    "Option<u8>": ("None", "Some(4)"),
}
SNAKE = ["a_b", "c_d", "x_y", "f_g", "p_q", "u_v"]
CAMEL = ["aB", "cD", "xY", "fG", "pQ", "uV"]
SINGLE = ["k", "m", "z", "w"]


def camel(ident):
    if "_" in ident:
        h, t = ident.split("_", 1)
        return h + t[:1].upper() + t[1:]
    return ident


def lower(ident):
    return ident.lower()


def identifiable(tab):
    seen = set()
    for s in tab:
        b = s.encode()
        k = (len(b), b[0] if b else 0, b[-1] if b else 0)
        if k in seen:
            return False
        seen.add(k)
    return True


def gen_type(rng, idx):
    for _attempt in range(200):
        nf = rng.randint(2, 4)
        pool = rng.sample(SNAKE, 2) + rng.sample(CAMEL, 2) + rng.sample(SINGLE, 2)
        rng.shuffle(pool)
        idents = []
        stems = set()
        for p in pool:
            st = p.replace("_", "").lower()
            if st in stems:
                continue
            stems.add(st)
            idents.append(p)
            if len(idents) == nf:
                break
        if len(idents) < nf:
            continue
        rename_all = rng.choice([None, None, "camelCase", "lowercase"])
        deny = rng.random() < 0.5
        fields = []
        for ident in idents:
            ty = rng.choice(list(TYPES))
            f = dict(ident=ident, ty=ty, rename=None, default=None, skip=False)
            r = rng.random()
            if r < 0.2:
                f["rename"] = rng.choice(["r_" + ident.replace("_", ""), ident.upper().replace("_", ""), "n" + ident[:1]])
            r = rng.random()
            if r < 0.2:
                f["default"] = "trait"
            elif r < 0.4 and TYPES[ty][1]:
                f["default"] = "expr"
            elif r < 0.55:
                f["skip"] = True
            fields.append(f)
        if all(f["skip"] for f in fields):
            continue
        for f in fields:
            if f["rename"]:
                f["key"] = f["rename"]
            elif rename_all == "camelCase":
                f["key"] = camel(f["ident"])
            elif rename_all == "lowercase":
                f["key"] = lower(f["ident"])
            else:
                f["key"] = f["ident"]
        live = [f for f in fields if not f["skip"]]
        keys = [f["key"] for f in live]
        if len(set(keys)) != len(keys):
            continue
        tab = list(keys)
        # near misses: raw identifiers, the other renaming, names of skipped fields, an alien key
        cands = []
        for f in fields:
            for c in (f["ident"], camel(f["ident"]), lower(f["ident"])):
                if c not in tab and c not in cands:
                    cands.append(c)
        rng.shuffle(cands)
        for c in cands + ["qq"]:
            if len(tab) >= 7:
                break
            if identifiable(tab + [c]):
                tab.append(c)
        if not identifiable(tab) or len(tab) < len(keys) + 1:
            continue
        return dict(name="G%d" % idx, rename_all=rename_all, deny=deny, fields=fields, tab=tab)
    raise SystemExit("generator could not build a type")


def emit(t):
    name = t["name"]
    out = []
    tab = t["tab"]
    out.append("// ================================================================== %s (generated)" % name)
    out.append("pub const %s_TAB: [&str; %d] = [%s];" % (name, len(tab), ", ".join('"%s"' % s for s in tab)))
    cattrs = []
    if t["rename_all"]:
        cattrs.append("rename_all = %s" % t["rename_all"])
    if t["deny"]:
        cattrs.append("deny_unknown_fields")
    out.append("#[derive(Deserr, Debug, PartialEq)]")
    if cattrs:
        out.append("#[deserr(%s)]" % ", ".join(cattrs))
    out.append("pub struct %s {" % name)
    for f in t["fields"]:
        a = []
        if f["rename"]:
            a.append('rename = "%s"' % f["rename"])
        if f["skip"]:
            a.append("skip")
        if f["default"] == "trait":
            a.append("default")
        elif f["default"] == "expr":
            a.append("default = %s" % TYPES[f["ty"]][1])
        if a:
            out.append("    #[deserr(%s)]" % ", ".join(a))
        out.append("    pub %s: %s," % (f["ident"], f["ty"]))
    out.append("}")
    live = [f for f in t["fields"] if not f["skip"]]
    acc = [tab.index(f["key"]) for f in live]

    def dflt(f):
        if f["skip"] and not f["default"]:
            return TYPES[f["ty"]][0]
        if f["default"] == "trait":
            return TYPES[f["ty"]][0]
        if f["default"] == "expr":
            return TYPES[f["ty"]][1]
        return None

    out.append("impl Model for %s {" % name)
    out.append("    fn expect(node: u8, loc: &Loc, exp: &mut Exp) {")
    out.append("        let n = crate::vsrc::node(node);")
    out.append("        if !want_map(&n, loc, exp) {\n            return;\n        }")
    for f in live:
        miss = "Miss::HasDefault" if f["default"] else "Miss::Report"
        out.append("        field::<%s>(&n, loc, %d, %s, exp);" % (f["ty"], tab.index(f["key"]), miss))
    out.append("        unknown(&n, loc, &[%s], 255, %s, exp);" % (", ".join(map(str, acc)), "Deny::Default" if t["deny"] else "Deny::No"))
    out.append("    }")
    out.append("    fn matches(&self, _node: u8) -> bool {\n        true\n    }")
    out.append("}")
    out.append("impl Cat for %s {" % name)
    out.append("    fn check_value(&self, node: u8) {")
    out.append("        let n = crate::vsrc::node(node);")
    for f in t["fields"]:
        d = dflt(f)
        if f["skip"]:
            out.append('        assert!(self.%s == %s, "C08: a skipped field must take its default and never read the payload");' % (f["ident"], d))
        elif d is not None:
            out.append("        filled_or!(self.%s, &n, %d, %s);" % (f["ident"], tab.index(f["key"]), d))
        else:
            out.append("        filled!(self.%s, &n, %d);" % (f["ident"], tab.index(f["key"])))
    out.append("    }")
    out.append("}")
    required = sum(1 for f in live if not f["default"])
    # Ok is reachable with n members iff the required fields fit and (under deny) all n keys can be known
    maxn = len(live) if t["deny"] else 99
    return "\n".join(out), (required, maxn)


def main():
    ap = argparse.ArgumentParser()
    ap.add_argument("--seed", type=int, default=0)
    ap.add_argument("--n", type=int, default=6)
    ap.add_argument("--out", default=os.path.join(os.path.dirname(os.path.dirname(os.path.abspath(__file__))), "harness", "src", "catalogue_gen.rs"))
    a = ap.parse_args()
    rng = random.Random(1000003 * a.seed + 17)
    parts = ["//! GENERATED by tools/gen_catalogue.py --seed %d --n %d — do not edit." % (a.seed, a.n),
             "#![allow(non_snake_case)]",
             "use crate::catalogue::*;\nuse crate::model::*;\nuse crate::props::*;\nuse crate::rec::*;\nuse crate::stubs::fmt_stub;\nuse crate::vsrc::*;\nuse crate::{filled, filled_or};\nuse deserr::Deserr;\n"]
    harness = []
    for i in range(a.n):
        t = gen_type(rng, i)
        code, (required, maxn) = emit(t)
        parts.append(code)
        n = len(t["tab"])
        nm = t["name"].lower()
        harness.append("hg!(c02_t_%s_m2, sk_obj(&%s_TAB, 2, %d), p_cat::<%s>(%s, true));" % (nm, t["name"], n, t["name"], "true" if required <= 2 <= maxn else "false"))
        if i < 2:
            harness.append("hg!(c02_t_%s_m3, sk_obj(&%s_TAB, 3, %d), p_cat::<%s>(%s, true));" % (nm, t["name"], n, t["name"], "true" if required <= 3 <= maxn else "false"))
    parts.append("""
macro_rules! hg {
    ($name:ident, $sk:ident($($a:expr),*), $p:ident::<$t:ty>($($b:expr),*)) => {
        #[cfg(kani)]
        #[kani::proof]
        #[kani::unwind(12)]
        #[kani::stub(alloc::fmt::format, fmt_stub)]
        pub fn $name() {
            $sk($($a),*);
            $p::<$t>($($b),*);
        }
    };
}
""")
    parts.extend(harness)
    txt = "\n".join(parts) + "\n"
    old = open(a.out).read() if os.path.exists(a.out) else None
    if old != txt:
        open(a.out, "w").write(txt)
    print("generated %d types into %s" % (a.n, a.out))


if __name__ == "__main__":
    main()
