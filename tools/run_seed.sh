#!/bin/bash
# run_seed.sh <seed-name> <PROPERTY> [tier] [only-regex]: apply a seeded change to /repo, run the property's check, undo the change.
# Never leaves /repo modified; never writes evidence.
name=$1; prop=$2; tier=${3:-quick}; only=$4
patch=/verif/seeded/$name/patch.diff
if [ -n "$(git -C /repo status --porcelain --untracked-files=no)" ]; then echo "/repo is not clean"; exit 3; fi
git -C /repo apply "$patch" || { echo "patch does not apply"; exit 3; }
trap 'git -C /repo checkout -- . ' EXIT
cd /verif
if [ -n "$only" ]; then bin/check $prop $tier --no-evidence --only "$only"; else bin/check $prop $tier --no-evidence; fi
rc=$?
echo "SEED $name property=$prop tier=$tier exit=$rc"
exit $rc
