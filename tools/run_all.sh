#!/bin/bash
# run_all.sh <tier> [props...]: run the registered checks one after the other (each uses all cores)
tier=${1:-quick}; shift
props=${@:-C19 C05 C18 C13 C16 C01 C12 C06 C02 C03 C04 C07 C08 C09 C10 C11 C15}
cd /verif
for p in $props; do
  s=$(date +%s)
  bin/check $p $tier > /tmp/run_$p.$tier.log 2>&1; rc=$?
  e=$(date +%s)
  echo "$p $tier exit=$rc wall=$((e-s))s :: $(tail -1 /tmp/run_$p.$tier.log)"
done
