#!/bin/bash
# seed_matrix.sh: run the checks against every seeded change (one at a time; /repo is restored after each)
# lines: seed property tier only-regex(optional)
cd /verif
out=/verif/seeded/detection.log
touch $out
while read seed prop tier only; do
  [ -z "$seed" ] && continue
  case $seed in \#*) continue;; esac
  s=$(date +%s)
  tools/run_seed.sh $seed $prop $tier "$only" > /tmp/seed_$seed.$prop.$tier.log 2>&1
  rc=$?
  e=$(date +%s)
  v=$(grep -c "^VIOLATION" /tmp/seed_$seed.$prop.$tier.log)
  f=$(grep -E "failed checks in" /tmp/seed_$seed.$prop.$tier.log | head -2 | tr '\n' ' ' | cut -c1-220)
  echo "seed=$seed property=$prop tier=$tier only=${only:--} exit=$rc violations=$v wall=$((e-s))s :: $f" | tee -a $out
done
